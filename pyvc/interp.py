"""Symbolic interpreter for the Python subset of DESIGN 2.3, direct style.

One Interp instance = one path.  Forking is done by smt.Ctx (re-execution).
Exceptions of the analysed program are PyExc; implicit run-time errors
(IndexError, KeyError, AttributeError, TypeError on binding, ...) are raised
as PyExc with an `origin` tag so that raises-closed obligations can name them.
"""
import ast

import z3

from . import values as V
from .values import (Obj, PyList, PyDict, PySet, SStr, StrBase, Func, BoundMethod, Builtin,
                     BuiltinMethod, Partial, SuperVal, ModuleVal, BuiltinModule, Opaque,
                     CharSet, SpecFn, is_str, is_int, is_boolv, zint, zbool, simp,
                     z_and, z_or, z_not, z_eq)
from .smt import EngineError, PathAbort
from .program import ClassInfo


class _Return(Exception):
    def __init__(self, value):
        self.value = value


class _Break(Exception):
    pass


class _Continue(Exception):
    pass


class PyExc(Exception):
    def __init__(self, value, origin=''):
        self.value = value
        self.origin = origin

    def __str__(self):
        return 'PyExc(%s, %s)' % (self.value.cls.name, self.origin)


class Frame(object):
    __slots__ = ('vars', 'parent', 'module', 'func', 'globals_decl', 'cur_exc', 'yields')

    def __init__(self, module, func=None, parent=None):
        self.vars = {}
        self.parent = parent
        self.module = module
        self.func = func
        self.globals_decl = set()
        self.cur_exc = None
        self.yields = None


class LoggerVal(object):
    pass


class _GlobalsView(object):
    """globals(): read-only view of the module's namespace (only subscripting by a known name is modelled)"""
    def __init__(self, it, mod):
        self.mod = mod

    def pyvc_index(self, it, key, node=None):
        if not isinstance(key, str):
            raise EngineError('globals()[symbolic name]')
        return it.module_get(self.mod, key)


class StarSym(object):
    """*args where args is a symbolic-length list"""
    def __init__(self, lst):
        self.lst = lst


LOGGER = LoggerVal()
_LOG_METHODS = ('debug', 'info', 'warning', 'error', 'critical', 'exception', 'warn', 'log')


class TypeMarker(object):
    """builtin type used in isinstance()/calls: str, int, list, ..."""
    def __init__(self, name):
        self.name = name

    def __repr__(self):
        return '<type %s>' % self.name


def contains_yield(node):
    for n in ast.walk(node):
        if isinstance(n, (ast.Yield, ast.YieldFrom)):
            # not inside a nested function
            return True
    return False


def assigned_names(stmts):
    """Names (and attribute/subscript targets) assigned in a statement list."""
    names = set()
    attrs = set()

    def tgt(t):
        if isinstance(t, ast.Name):
            names.add(t.id)
        elif isinstance(t, (ast.Tuple, ast.List)):
            for e in t.elts:
                tgt(e)
        elif isinstance(t, ast.Starred):
            tgt(t.value)
        elif isinstance(t, ast.Attribute):
            attrs.add(ast.unparse(t))
        elif isinstance(t, ast.Subscript):
            attrs.add(ast.unparse(t.value) + '[]')
    for st in stmts:
        for n in ast.walk(st):
            if isinstance(n, ast.Assign):
                for t in n.targets:
                    tgt(t)
            elif isinstance(n, (ast.AugAssign, ast.AnnAssign)):
                tgt(n.target)
            elif isinstance(n, (ast.For, ast.comprehension)):
                tgt(n.target)
            elif isinstance(n, ast.With):
                for it in n.items:
                    if it.optional_vars is not None:
                        tgt(it.optional_vars)
            elif isinstance(n, ast.ExceptHandler) and n.name:
                names.add(n.name)
            elif isinstance(n, ast.NamedExpr):
                tgt(n.target)
    return names, attrs


class Interp(object):
    def __init__(self, ctx, program, registry=None):
        from . import builtins as B
        self.B = B
        self.ctx = ctx
        self.program = program
        self.registry = registry
        self.module_state = {}
        self.depth = 0
        self.max_depth = 60
        self.unit_func = None         # qualname of the function being verified (body executed)
        self.loop_counter = {}        # per function activation: loop ordinals are static
        self.default_cache = {}
        self.unroll_limit = 12
        self.heap_log = None          # when not None: list collecting (obj, field) writes
        self.unit_inline = set()
        self.func_stack = []
        self.builtins = B.make_builtins(self)

    def cur_func_name(self):
        return self.func_stack[-1] if self.func_stack else (self.unit_func or '<unit>')

    def wd(self, kind, src, cond):
        """Well-definedness check at a partial operation.  Returns True when the
        operation is defined on this path (forking if both are possible); records a
        proved obligation when the failing side is infeasible."""
        if isinstance(cond, bool):
            return cond
        name = '%s:wd:%s[%s]' % (self.cur_func_name(), kind, src)
        return self.ctx.branch(cond, wd_name=name)

    # ------------------------------------------------------------------ errors
    def raise_builtin(self, clsname, origin, msg=''):
        cls = self.program.builtin_classes[clsname]
        o = Obj(cls, {'args': (msg,)})
        raise PyExc(o, origin)

    # ------------------------------------------------------------------ modules
    def module_get(self, mod, name, default=KeyError):
        key = (mod.name, name)
        if key in self.module_state:
            return self.module_state[key]
        st = mod.defs.get(name)
        if st is None:
            if name == '__name__':
                return mod.name
            for (level, target) in reversed(mod.star_imports):
                full = self.program.resolve_relative(mod, level, target or '')
                m2 = self.program.module(full)
                if m2 is None or name.startswith('_'):
                    continue
                allv = m2.defs.get('__all__')
                if allv is not None:
                    try:
                        names = [e.value for e in allv.value.elts]
                    except Exception:
                        names = None
                    if names is not None and name not in names:
                        continue
                try:
                    v = self.module_get(m2, name)
                except KeyError:
                    continue
                self.module_state[key] = v
                return v
            if default is KeyError:
                raise KeyError(name)
            return default
        v = self._eval_module_def(mod, name, st)
        return v

    def _module_frame(self, mod):
        key = (mod.name, '<frame>')
        fr = self.module_state.get(key)
        if fr is None:
            fr = Frame(mod)
            fr.vars = _ModuleVars(self, mod)
            self.module_state[key] = fr
        return fr

    def _eval_module_def(self, mod, name, st):
        key = (mod.name, name)
        if isinstance(st, ast.FunctionDef):
            v = self.make_func(st, mod, None, None, mod.name + '.' + name)
        elif isinstance(st, ast.ClassDef):
            v = self.make_class(st, mod)
        elif isinstance(st, (ast.Assign, ast.AnnAssign)):
            fr = self._module_frame(mod)
            # mark in progress to break cycles
            val = self.eval(st.value, fr)
            if isinstance(st, ast.Assign):
                for t in st.targets:
                    self._assign_module_target(mod, t, val)
            else:
                self.module_state[(mod.name, st.target.id)] = val
            v = self.module_state[key]
        elif isinstance(st, ast.Import):
            v = None
            for a in st.names:
                nm = a.asname or a.name.split('.')[0]
                if nm == name:
                    v = self.import_module(a.name if a.asname else a.name.split('.')[0], mod, 0)
            if v is None:
                raise EngineError('import %s' % name)
        elif isinstance(st, ast.ImportFrom):
            v = None
            for a in st.names:
                if (a.asname or a.name) == name:
                    v = self.import_from(mod, st.level, st.module, a.name)
        else:
            raise EngineError('module-level definition of %s' % name)
        self.module_state[key] = v
        return v

    def _assign_module_target(self, mod, t, val):
        if isinstance(t, ast.Name):
            self.module_state[(mod.name, t.id)] = val
        elif isinstance(t, ast.Tuple):
            items = self.iter_values(val)
            for e, x in zip(t.elts, items):
                self._assign_module_target(mod, e, x)
        else:
            raise EngineError('module-level assignment target')

    def import_module(self, name, mod, level):
        full = self.program.resolve_relative(mod, level, name) if level else name
        if full in self.B.BUILTIN_MODULES:
            return self.B.get_builtin_module(self, full)
        m = self.program.module(full)
        if m is not None:
            return ModuleVal(m)
        return Opaque('module ' + full)

    def import_from(self, mod, level, target, name):
        full = self.program.resolve_relative(mod, level, target or '')
        if full in self.B.BUILTIN_MODULES:
            bm = self.B.get_builtin_module(self, full)
            if name in bm.attrs:
                return bm.attrs[name]
            return Opaque('%s.%s' % (full, name))
        m = self.program.module(full)
        if m is None:
            if full == '__future__':
                return None
            return Opaque('%s.%s' % (full, name))
        if name in m.defs:
            return self.module_get(m, name)
        sub = self.program.module(full + '.' + name)
        if sub is not None:
            return ModuleVal(sub)
        # a name the module itself got through "from .x import *"
        for (lv, target2) in getattr(m, 'star_imports', ()):
            try:
                return self.import_from(m, lv, target2, name)
            except EngineError:
                continue
        raise EngineError('cannot import %s from %s' % (name, full))

    # ------------------------------------------------------------------ functions/classes
    def make_func(self, node, mod, closure, owner, qualname):
        f = Func(node, mod, closure, owner, qualname)
        if isinstance(node, ast.FunctionDef):
            for d in node.decorator_list:
                dn = ast.unparse(d)
                if dn == 'staticmethod':
                    f.is_static = True
                elif dn == 'classmethod':
                    f.is_classmethod = True
                elif dn == 'property':
                    f.is_property = True
                else:
                    raise EngineError('decorator %s on %s' % (dn, qualname))
            f.is_generator = _has_own_yield(node)
        return f

    def make_class(self, node, mod, outer=None):
        ckey = node.name if outer is None else (outer.qualname + '.' + node.name)
        ci = mod.classes.get(ckey)
        if ci is not None and ci.node is node:
            return ci
        fr = self._module_frame(mod)
        bases = []
        for b in node.bases:
            bv = self.eval(b, fr)
            if isinstance(bv, ClassInfo):
                bases.append(bv)
            elif isinstance(bv, TypeMarker) and bv.name == 'object':
                bases.append(self.program.builtin_classes['object'])
            else:
                raise EngineError('base class %s of %s' % (ast.unparse(b), node.name))
        if not bases:
            bases = [self.program.builtin_classes['object']]
        ci = ClassInfo(node.name, mod, node, bases)
        ci.outer = outer
        mod.classes[ckey] = ci
        return ci

    def class_lookup(self, cls, name, start_after=None):
        """Find attribute `name` along the MRO.  Returns (owner, ast stmt) or None."""
        mro = cls.mro()
        if start_after is not None:
            mro = mro[mro.index(start_after) + 1:]
        for c in mro:
            if name in c.members:
                return c, c.members[name]
        return None

    def class_member_value(self, owner, name, st):
        key = ('<cls>', owner.qualname, name) if getattr(owner, 'closure', None) is None else ('<cls>', id(owner), name)
        if key in self.module_state:
            return self.module_state[key]
        if isinstance(st, ast.FunctionDef):
            v = self.make_func(st, owner.module, getattr(owner, 'closure', None), owner, owner.qualname + '.' + name)
        elif isinstance(st, ast.ClassDef):
            v = self.make_class(st, owner.module, outer=owner)
        else:
            fr = Frame(owner.module, parent=None)
            # class-body names are visible to later class-body statements
            fr.vars = _ClassVars(self, owner)
            v = self.eval(st.value, fr)
        self.module_state[key] = v
        return v

    # ------------------------------------------------------------------ names
    def lookup(self, name, frame, node=None):
        fr = frame
        while fr is not None:
            if name in fr.globals_decl:
                break
            vs = fr.vars
            if name in vs:
                v = vs[name]
                if v is _UNBOUND:
                    self.raise_builtin('UnboundLocalError', 'wd:name[%s]' % name)
                return v
            fr = fr.parent
        try:
            return self.module_get(frame.module, name)
        except KeyError:
            pass
        if name in self.builtins:
            return self.builtins[name]
        if self.ctx.spec and self.registry is not None and name in self.registry.spec_fns:
            return self.registry.spec_fns[name]
        if self.ctx.spec and name in self.ctx.ghost.get('spec_vars', {}):
            return self.ctx.ghost['spec_vars'][name]
        self.raise_builtin('NameError', 'wd:name[%s]' % name)

    # ------------------------------------------------------------------ truth
    def truth_term(self, v):
        if v is None:
            return False
        if isinstance(v, (bool, z3.BoolRef)):
            return v
        if isinstance(v, int):
            return v != 0
        if isinstance(v, z3.ArithRef):
            return v != 0
        if is_str(v):
            return V.str_truth(v)
        if isinstance(v, tuple):
            return len(v) > 0
        if isinstance(v, PyList):
            if v.items is not None:
                return len(v.items) > 0
            return v.length > 0
        if isinstance(v, PyDict):
            return len(v.items) > 0
        if isinstance(v, PySet):
            return len(v.items) > 0
        if isinstance(v, frozenset):
            return len(v) > 0
        if isinstance(v, Obj):
            if self.class_lookup(v.cls, '__bool__') or self.class_lookup(v.cls, '__len__'):
                if self.class_lookup(v.cls, '__bool__'):
                    return self.truth_term(self.call_method(v, '__bool__', [], {}))
                return self.truth_term(self.call_method(v, '__len__', [], {}))
            return True
        if isinstance(v, (Func, BoundMethod, Builtin, BuiltinMethod, ClassInfo, Partial, ModuleVal,
                          BuiltinModule, TypeMarker, SpecFn, LoggerVal)):
            return True
        if isinstance(v, V.AbsVal):
            if 'truth' in v.attrs:
                return v.attrs['truth'](self, v)
            return True
        if hasattr(v, 'pyvc_truth'):
            return v.pyvc_truth(self)
        if isinstance(v, CharSet):
            raise EngineError('truth of a CharSet')
        if isinstance(v, Opaque):
            raise EngineError('truth of opaque value: %s' % v.why)
        raise EngineError('truth of %r' % (v,))

    def truthy(self, v):
        t = self.truth_term(v)
        return self.ctx.branch(t)

    # ------------------------------------------------------------------ equality
    def equal_term(self, a, b):
        """Truth term of a == b."""
        if a is None or b is None:
            return a is None and b is None
        if is_str(a) and is_str(b):
            return V.seq_eq(self.ctx, a, b)
        if is_boolv(a) and is_boolv(b):
            return z_eq(a, b)
        if (is_int(a) or is_boolv(a)) and (is_int(b) or is_boolv(b)):
            a2 = _bool_to_int(a)
            b2 = _bool_to_int(b)
            return z_eq(a2, b2)
        if isinstance(a, tuple) and isinstance(b, tuple):
            if len(a) != len(b):
                return False
            return z_and(*[self.equal_term(x, y) for x, y in zip(a, b)])
        if isinstance(a, PyList) and isinstance(b, PyList):
            if a is b:
                return True
            if a.items is not None and b.items is not None:
                if len(a.items) != len(b.items):
                    return False
                return z_and(*[self.equal_term(x, y) for x, y in zip(a.items, b.items)])
            raise EngineError('equality of symbolic lists')
        if isinstance(a, PyDict) and isinstance(b, PyDict):
            if a is b:
                return True
            if set(map(_hkey, a.items)) != set(map(_hkey, b.items)):
                return False
            return z_and(*[self.equal_term(a.items[k], b.items[k]) for k in a.items])
        if isinstance(a, V.AbsVal) or isinstance(b, V.AbsVal):
            if isinstance(a, V.AbsVal) and isinstance(b, V.AbsVal):
                return a.term == b.term
            o, x = (a, b) if isinstance(a, V.AbsVal) else (b, a)
            if hasattr(o, 'eq_other'):
                return o.eq_other(self, x)
            return False
        if isinstance(a, Obj) and isinstance(b, Obj):
            eq = self.class_lookup(a.cls, '__eq__')
            if eq is not None and not eq[0].builtin:
                r = self.call_method(a, '__eq__', [b], {})
                return self.truth_term(r)
            return a is b
        if isinstance(a, Obj) or isinstance(b, Obj):
            o, x = (a, b) if isinstance(a, Obj) else (b, a)
            eq = self.class_lookup(o.cls, '__eq__')
            if eq is not None and not eq[0].builtin:
                return self.truth_term(self.call_method(o, '__eq__', [x], {}))
            return False
        if isinstance(a, (ClassInfo, Func, TypeMarker, Builtin)) or isinstance(b, (ClassInfo, Func, TypeMarker, Builtin)):
            return a is b
        if isinstance(a, (frozenset, PySet)) and isinstance(b, (frozenset, PySet)):
            raise EngineError('set equality')
        if isinstance(a, Opaque) or isinstance(b, Opaque):
            raise EngineError('equality with opaque value')
        # different kinds
        ka, kb = _kind(a), _kind(b)
        if ka != kb:
            return False
        raise EngineError('equality of %r and %r' % (a, b))

    def contains_term(self, item, cont):
        """Truth term of `item in cont`."""
        if isinstance(cont, CharSet):
            if not is_str(item):
                return False
            n = V.slen(item)
            if not (isinstance(n, int) and n == 1) and not self.ctx.spec:
                if not self.ctx.provable(zint(n) == 1):
                    raise EngineError('membership of a non-1-char string in a CharSet')
            return cont.pred(V.char_at(item, 0))
        if is_str(cont):
            if not is_str(item):
                self.raise_builtin('TypeError', 'wd:type[in str]')
            return self.B.str_contains(self, cont, item)
        if isinstance(cont, tuple):
            return z_or(*[self.equal_term(item, x) for x in cont])
        if isinstance(cont, PyList):
            if cont.items is not None:
                return z_or(*[self.equal_term(item, x) for x in cont.items])
            code = cont.codec.encode(self, item) if cont.codec is not None else item
            if code is None and cont.codec is not None:
                return False       # a value of another kind (e.g. None) is not an element
            if is_int(code):
                from .smt import forall_range
                return z_not(forall_range(self.ctx, 0, cont.length, lambda j: cont.arr[j] != zint(code), 'inl'))
            raise EngineError('membership in symbolic list')
        if isinstance(cont, PyDict):
            return z_or(*[self.equal_term(item, k) for k in cont.items])
        if isinstance(cont, PySet):
            return z_or(*[self.equal_term(item, k) for k in cont.items])
        if isinstance(cont, frozenset):
            return z_or(*[self.equal_term(item, k) for k in cont])
        if isinstance(cont, Obj) and self.class_lookup(cont.cls, '__contains__'):
            return self.truth_term(self.call_method(cont, '__contains__', [item], {}))
        if hasattr(cont, 'pyvc_contains'):
            return cont.pyvc_contains(self, item)
        raise EngineError('membership in %r' % (cont,))

    def compare(self, op, a, b):
        if isinstance(op, ast.Eq):
            return self.equal_term(a, b)
        if isinstance(op, ast.NotEq):
            return z_not(self.equal_term(a, b))
        if isinstance(op, ast.Is):
            return self.identity(a, b)
        if isinstance(op, ast.IsNot):
            return z_not(self.identity(a, b))
        if isinstance(op, ast.In):
            return self.contains_term(a, b)
        if isinstance(op, ast.NotIn):
            return z_not(self.contains_term(a, b))
        if is_boolv(a):
            a = _bool_to_int(a)
        if is_boolv(b):
            b = _bool_to_int(b)
        if is_int(a) and is_int(b):
            if not V.is_sym(a) and not V.is_sym(b):
                return {ast.Lt: a < b, ast.LtE: a <= b, ast.Gt: a > b, ast.GtE: a >= b}[type(op)]
            a, b = zint(a), zint(b)
            if isinstance(op, ast.Lt):
                return a < b
            if isinstance(op, ast.LtE):
                return a <= b
            if isinstance(op, ast.Gt):
                return a > b
            if isinstance(op, ast.GtE):
                return a >= b
        if isinstance(a, str) and isinstance(b, str):
            return {ast.Lt: a < b, ast.LtE: a <= b, ast.Gt: a > b, ast.GtE: a >= b}[type(op)]
        if isinstance(a, tuple) and isinstance(b, tuple) and all(isinstance(x, int) for x in a + b):
            return {ast.Lt: a < b, ast.LtE: a <= b, ast.Gt: a > b, ast.GtE: a >= b}[type(op)]
        if a is None or b is None:
            self.raise_builtin('TypeError', 'wd:type[order comparison with None]')
        raise EngineError('comparison %s of %r and %r' % (type(op).__name__, a, b))

    def identity(self, a, b):
        if a is None or b is None:
            return a is None and b is None
        if isinstance(a, bool) and isinstance(b, bool):
            return a == b
        if isinstance(a, z3.BoolRef) or isinstance(b, z3.BoolRef):
            if is_boolv(a) and is_boolv(b):
                return z_eq(a, b)
            return False
        if isinstance(a, V.AbsVal) and isinstance(b, V.AbsVal):
            return a.term == b.term
        if isinstance(a, V.AbsVal) or isinstance(b, V.AbsVal):
            return False
        if isinstance(a, (Obj, PyList, PyDict, PySet, ClassInfo, Func, TypeMarker)) or \
                isinstance(b, (Obj, PyList, PyDict, PySet, ClassInfo, Func, TypeMarker)):
            return a is b
        if isinstance(a, str) and isinstance(b, str):
            return a == b   # interned literals; the repo only uses `is` on None/True/False
        if is_int(a) and is_int(b):
            return z_eq(a, b)
        if _kind(a) != _kind(b):
            return False
        if not is_str(a) and not is_int(a) and not is_boolv(a) and not isinstance(a, (tuple, frozenset)):
            return a is b        # model objects (abstract containers etc.) have python identity
        if a is b:
            return True          # one and the same value object handed on (only used by specifications: 'the field IS the argument')
        raise EngineError('identity of %r and %r' % (a, b))

    # ------------------------------------------------------------------ expressions
    def eval(self, node, frame):
        m = getattr(self, 'eval_' + type(node).__name__, None)
        if m is None:
            raise EngineError('expression %s' % type(node).__name__)
        return m(node, frame)

    def eval_Constant(self, node, frame):
        v = node.value
        if isinstance(v, (str, int, bool)) or v is None:
            return v
        if isinstance(v, float):
            return Opaque('float')
        if isinstance(v, bytes):
            return Opaque('bytes')
        if v is Ellipsis:
            return Opaque('...')
        raise EngineError('constant %r' % (v,))

    def eval_Name(self, node, frame):
        return self.lookup(node.id, frame, node)

    def eval_Tuple(self, node, frame):
        out = []
        for e in node.elts:
            if isinstance(e, ast.Starred):
                out.extend(self.iter_values(self.eval(e.value, frame)))
            else:
                out.append(self.eval(e, frame))
        return tuple(out)

    def eval_List(self, node, frame):
        out = []
        for e in node.elts:
            if isinstance(e, ast.Starred):
                out.extend(self.iter_values(self.eval(e.value, frame)))
            else:
                out.append(self.eval(e, frame))
        return PyList(out)

    def eval_Set(self, node, frame):
        return PySet([self.eval(e, frame) for e in node.elts])

    def eval_Dict(self, node, frame):
        d = PyDict()
        for k, v in zip(node.keys, node.values):
            if k is None:
                src = self.eval(v, frame)
                if not isinstance(src, PyDict):
                    raise EngineError('** of non-dict in dict display')
                for kk, vv in src.items.items():
                    d.items[kk] = vv
            else:
                kv = self.eval(k, frame)
                self.dict_set(d, kv, self.eval(v, frame))
        return d

    def eval_JoinedStr(self, node, frame):
        parts = []
        for v in node.values:
            if isinstance(v, ast.Constant):
                parts.append(v.value)
            else:
                self.eval(v.value, frame)
                parts.append(self.fresh_str('fstr'))
        r = ''
        for p in parts:
            r = V.sconcat(r, p)
        return r

    def eval_Lambda(self, node, frame):
        qn = (frame.func.qualname if frame.func else frame.module.name) + '.<lambda>'
        return self.make_func(node, frame.module, frame, None, qn)

    def eval_IfExp(self, node, frame):
        if self.ctx.spec:
            c = self.truth_term(self.eval(node.test, frame))
            if isinstance(c, bool):
                return self.eval(node.body if c else node.orelse, frame)
            a = self.eval(node.body, frame)
            b = self.eval(node.orelse, frame)
            if (is_int(a) or is_boolv(a)) and (is_int(b) or is_boolv(b)):
                return V.z_ite(c, a, b)
            raise EngineError('conditional expression over non-scalar values in a specification')
        if self.truthy(self.eval(node.test, frame)):
            return self.eval(node.body, frame)
        return self.eval(node.orelse, frame)

    def eval_BoolOp(self, node, frame):
        if self.ctx.spec:
            ts = []
            for v in node.values:
                t = self.truth_term(self.eval(v, frame))
                if isinstance(t, bool):
                    if t != isinstance(node.op, ast.And):
                        return t      # decisive: short-circuit like Python
                    continue
                ts.append(t)
            return z_and(*ts) if isinstance(node.op, ast.And) else z_or(*ts)
        v = None
        for e in node.values:
            v = self.eval(e, frame)
            t = self.truthy(v)
            if isinstance(node.op, ast.And) and not t:
                return v
            if isinstance(node.op, ast.Or) and t:
                return v
        return v

    def eval_UnaryOp(self, node, frame):
        v = self.eval(node.operand, frame)
        if isinstance(node.op, ast.Not):
            if self.ctx.spec:
                return z_not(self.truth_term(v))
            return not self.truthy(v)
        if isinstance(node.op, ast.USub):
            if is_int(v):
                return simp(-v) if V.is_sym(v) else -v
        if isinstance(node.op, ast.UAdd) and is_int(v):
            return v
        raise EngineError('unary op')

    def eval_Compare(self, node, frame):
        left = self.eval(node.left, frame)
        terms = []
        for op, rn in zip(node.ops, node.comparators):
            right = self.eval(rn, frame)
            t = self.compare(op, left, right)
            if self.ctx.spec:
                terms.append(t)
            else:
                if len(node.ops) == 1:
                    return simp(t)
                if not self.ctx.branch(t):
                    return False
            left = right
        if self.ctx.spec:
            return simp(z_and(*terms))
        return True

    def eval_BinOp(self, node, frame):
        a = self.eval(node.left, frame)
        b = self.eval(node.right, frame)
        return self.binop(node.op, a, b)

    def binop(self, op, a, b):
        if is_boolv(a) and not isinstance(op, (ast.BitAnd, ast.BitOr)):
            a = _bool_to_int(a)
        if is_boolv(b) and not isinstance(op, (ast.BitAnd, ast.BitOr)):
            b = _bool_to_int(b)
        if is_int(a) and is_int(b):
            if not V.is_sym(a) and not V.is_sym(b):
                if isinstance(op, ast.Add):
                    return a + b
                if isinstance(op, ast.Sub):
                    return a - b
                if isinstance(op, ast.Mult):
                    return a * b
                if isinstance(op, ast.FloorDiv):
                    if b == 0:
                        self.raise_builtin('ZeroDivisionError', 'wd:div')
                    return a // b
                if isinstance(op, ast.Mod):
                    if b == 0:
                        self.raise_builtin('ZeroDivisionError', 'wd:div')
                    return a % b
                if isinstance(op, ast.Pow) and b >= 0:
                    return a ** b
                if isinstance(op, ast.LShift):
                    return a << b
                if isinstance(op, ast.RShift):
                    return a >> b
                if isinstance(op, ast.BitAnd):
                    return a & b
                if isinstance(op, ast.BitOr):
                    return a | b
                raise EngineError('int op %s' % type(op).__name__)
            a2, b2 = zint(a), zint(b)
            if isinstance(op, ast.Add):
                return simp(a2 + b2)
            if isinstance(op, ast.Sub):
                return simp(a2 - b2)
            if isinstance(op, ast.Mult):
                return simp(a2 * b2)
            if isinstance(op, (ast.FloorDiv, ast.Mod)):
                if isinstance(b, int) and b > 0:
                    return simp(a2 / b2) if isinstance(op, ast.FloorDiv) else simp(a2 % b2)
                raise EngineError('symbolic division')
            raise EngineError('symbolic int op %s' % type(op).__name__)
        if is_str(a) and is_str(b) and isinstance(op, ast.Add):
            return V.sconcat(a, b)
        if is_str(a) and isinstance(op, ast.Mod):
            if isinstance(a, str) and _concrete_fmt_args(b):
                try:
                    return a % _py_fmt_args(b)
                except TypeError:
                    self.raise_builtin('TypeError', 'wd:format')
                except KeyError:
                    self.raise_builtin('KeyError', 'wd:format')
                except ValueError:
                    self.raise_builtin('ValueError', 'wd:format')
            r = self._format_percent_s(a, b)
            if r is not None:
                return r
            if self._format_literal_ok(a, b):
                return self.fresh_str('fmt')
            # format string or arguments not fully known: '%' either yields some string or raises one of the three
            # exceptions printf-style formatting can raise (wrong arity / bad directive / missing key)
            k = self.ctx.choose(4, 'outcome of % formatting') if not self.ctx.spec else 0
            if k:
                self.raise_builtin(['TypeError', 'ValueError', 'KeyError'][k - 1], 'wd:format[%]')
            return self.fresh_str('fmt')
        if is_str(a) and is_int(b) and isinstance(op, ast.Mult):
            if isinstance(b, int):
                r = ''
                for _ in range(max(b, 0)):
                    r = V.sconcat(r, a)
                return r
            return self.fresh_str('strmul')
        if isinstance(a, tuple) and isinstance(b, tuple) and isinstance(op, ast.Add):
            return a + b
        if isinstance(a, PyList) and isinstance(b, PyList) and isinstance(op, ast.Add):
            if a.items is not None and b.items is not None:
                return PyList(list(a.items) + list(b.items))
            if a.items is not None and b.items is None:
                r = PyList(None, b.length, b.arr, b.tag, b.codec)
                for x in reversed(a.items):
                    self.B.sym_list_method(self, 'insert', r, [0, x], {}, None)
                return r
            raise EngineError('symbolic list concatenation')
        if isinstance(a, PyList) and is_int(b) and isinstance(op, ast.Mult) and isinstance(b, int) \
                and a.items is not None:
            return PyList(list(a.items) * b)
        if isinstance(a, (PySet, frozenset)) and isinstance(b, (PySet, frozenset)):
            ia = list(a.items) if isinstance(a, PySet) else list(a)
            ib = list(b.items) if isinstance(b, PySet) else list(b)
            if isinstance(op, ast.BitOr):
                return self.B.make_set(self, ia + ib)
        if isinstance(a, Opaque) or isinstance(b, Opaque):
            return Opaque('binop on opaque')
        if a is None or b is None:
            self.raise_builtin('TypeError', 'wd:type[binop with None]')
        if (is_str(a) and is_int(b)) or (is_int(a) and is_str(b)):
            if isinstance(op, ast.Add):
                self.raise_builtin('TypeError', 'wd:type[str + int]')
        raise EngineError('binop %s on %r, %r' % (type(op).__name__, a, b))

    def _format_literal_ok(self, fmt, args):
        """a literal printf-style format without mapping keys, applied to the right number of arguments of the
        right kinds (any value for %s/%r, integers for %d %i %o %u %x %X %c ...): raises nothing"""
        if not isinstance(fmt, str):
            return False
        import re as _re
        rx = _re.compile(r'%(\(\w*\))?[#0\- +]*(\d+|\*)?(\.(\d+|\*))?[hlL]?(.)', _re.S)
        kinds = []
        pos = 0
        while True:
            i = fmt.find('%', pos)
            if i < 0:
                break
            m = rx.match(fmt, i)
            if not m or m.group(1) or m.group(2) == '*' or m.group(4) == '*' or m.group(5) not in 'diouxXeEfFgGcrsa%':
                return False
            if m.group(5) != '%':
                kinds.append(m.group(5))
            pos = m.end()
        vals = list(args) if isinstance(args, tuple) else [args]
        if isinstance(args, (PyDict, PyList)) and kinds != ['s'] and kinds != ['r']:
            return False
        if len(vals) != len(kinds):
            return False
        for k, v in zip(kinds, vals):
            if k in 'sra':
                continue
            if not (is_int(v) or is_boolv(v)):
                return False
        return True

    def _format_percent_s(self, fmt, args):
        """exact model of  fmt % args  when fmt is a literal whose only directives are %s / %% and the
        arguments are strings (one string, or a tuple of strings of the right length)"""
        if not isinstance(fmt, str):
            return None
        import re as _re
        parts = _re.split(r'(%%|%s)', fmt)
        if any('%' in p for p in parts if p not in ('%%', '%s')):
            return None
        n = sum(1 for p in parts if p == '%s')
        if isinstance(args, tuple):
            vals = list(args)
        elif isinstance(args, PyDict):
            return None
        else:
            vals = [args]
        if not all(is_str(v) for v in vals):
            return None
        if len(vals) != n:
            self.raise_builtin('TypeError', 'wd:format[arguments do not match the format string]')
        out = ''
        it = iter(vals)
        for p in parts:
            out = V.sconcat(out, '%' if p == '%%' else (next(it) if p == '%s' else p))
        return out

    def eval_Subscript(self, node, frame):
        v = self.eval(node.value, frame)
        if isinstance(node.slice, ast.Slice):
            lo = self.eval(node.slice.lower, frame) if node.slice.lower is not None else None
            hi = self.eval(node.slice.upper, frame) if node.slice.upper is not None else None
            if node.slice.step is not None:
                st = self.eval(node.slice.step, frame)
                if st != 1 and st is not None:
                    if isinstance(v, str) and all(x is None or isinstance(x, int) for x in (lo, hi, st)):
                        return v[lo:hi:st]
                    if isinstance(v, (PyList, tuple)) and st == -1 and lo is None and hi is None:
                        items = list(self.iter_values(v))
                        items.reverse()
                        return PyList(items) if isinstance(v, PyList) else tuple(items)
                    raise EngineError('extended slice')
            return self.slice_value(v, lo, hi, node)
        idx = self.eval(node.slice, frame)
        return self.index_value(v, idx, node)

    def slice_value(self, v, lo, hi, node=None):
        if is_str(v):
            for b in (lo, hi):
                if b is not None and not is_int(b):
                    self.raise_builtin('TypeError', 'wd:type[slice index]')
            return V.sslice(self.ctx, v, lo, hi)
        if isinstance(v, (tuple, PyList)):
            items = v if isinstance(v, tuple) else v.items
            if items is None:
                if hi is None and isinstance(lo, int) and lo >= 0:
                    from .smt import forall_range
                    n2 = simp(z3.If(v.length >= lo, v.length - lo, 0))
                    arr2 = z3.Array('slice!%d' % self.ctx.next_id(), z3.IntSort(), z3.IntSort())
                    self.ctx.assume(forall_range(self.ctx, 0, n2, lambda j: arr2[j] == v.arr[j + lo], 'sl'))
                    return PyList(None, n2, arr2, v.tag, v.codec)
                raise EngineError('slice of symbolic list')
            if (lo is None or isinstance(lo, int)) and (hi is None or isinstance(hi, int)):
                r = items[lo:hi]
                return tuple(r) if isinstance(v, tuple) else PyList(list(r))
            raise EngineError('symbolic slice of list')
        if v is None:
            self.raise_builtin('TypeError', 'wd:none[%s]' % (_src(node),))
        if isinstance(v, Opaque):
            return Opaque('slice of opaque')
        raise EngineError('slice of %r' % (v,))

    def index_value(self, v, idx, node=None):
        src = _src(node)
        if is_str(v):
            if not is_int(idx):
                self.raise_builtin('TypeError', 'wd:type[str index]')
            n = V.slen(v)
            if isinstance(v, str) and isinstance(idx, int):
                if -len(v) <= idx < len(v):
                    return v[idx]
                self.raise_builtin('IndexError', 'wd:index[%s]' % src)
            if self.ctx.spec:
                return V.sslice(self.ctx, v, idx, simp(zint(idx) + 1))
            if isinstance(idx, int) and idx < 0:
                idx = simp(zint(n) + idx)
            elif V.is_sym(idx):
                if self.ctx.branch(idx < 0):
                    idx = simp(zint(n) + idx)
            ok = self.wd('index', src, z3.And(zint(idx) >= 0, zint(idx) < zint(n)))
            if not ok:
                self.raise_builtin('IndexError', 'wd:index[%s]' % src)
            atoms = V.atoms_of(v)
            if len(atoms) == 1 and atoms[0][0] == 'sl':
                return V.sslice(self.ctx, v, idx, simp(zint(idx) + 1))
            return V.mk_str([('ch', V.char_at(v, idx))])
        if isinstance(v, (tuple, PyList)):
            items = v if isinstance(v, tuple) else v.items
            if items is not None:
                if not is_int(idx):
                    self.raise_builtin('TypeError', 'wd:type[list index]')
                n = len(items)
                if isinstance(idx, int):
                    if -n <= idx < n:
                        return items[idx]
                    self.raise_builtin('IndexError', 'wd:index[%s]' % src)
                if self.ctx.spec:
                    raise EngineError('symbolic index into concrete list in a specification')
                for k in range(-n, n):
                    if self.ctx.branch(idx == k):
                        return items[k]
                self.raise_builtin('IndexError', 'wd:index[%s]' % src)
            # symbolic int list
            if not is_int(idx):
                self.raise_builtin('TypeError', 'wd:type[list index]')
            if self.ctx.spec:
                return v.arr[zint(idx)]
            n = v.length
            if isinstance(idx, int) and idx < 0:
                idx = simp(n + idx)
            elif V.is_sym(idx) and self.ctx.branch(idx < 0):
                idx = simp(n + idx)
            if not self.wd('index', src, z3.And(zint(idx) >= 0, zint(idx) < n)):
                self.raise_builtin('IndexError', 'wd:index[%s]' % src)
            if v.codec is not None:
                return v.codec.decode(self, v.arr[zint(idx)])
            return v.arr[zint(idx)]
        if isinstance(v, PyDict):
            return self.dict_get(v, idx, src)
        if isinstance(v, Obj):
            if self.class_lookup(v.cls, '__getitem__'):
                return self.call_method(v, '__getitem__', [idx], {})
            self.raise_builtin('TypeError', 'wd:type[%s not subscriptable]' % src)
        if v is None:
            self.raise_builtin('TypeError', 'wd:none[%s]' % src)
        if isinstance(v, Opaque):
            return Opaque('index of opaque')
        if isinstance(v, CharSet) and v.valfn is not None:
            return v.valfn(self, idx)
        if hasattr(v, 'pyvc_index'):
            return v.pyvc_index(self, idx, src)
        raise EngineError('subscript of %r' % (v,))

    def dict_get(self, d, key, src=''):
        k = _hkey(key)
        if k is not None:
            if k in d.items:
                return d.items[k]
            if all(_hkey_concrete(x) for x in d.items):
                self.raise_builtin('KeyError', 'wd:key[%s]' % src)
        for kk, vv in d.items.items():
            if self.ctx.branch(self.equal_term(key, kk)):
                return vv
        self.raise_builtin('KeyError', 'wd:key[%s]' % src)

    def dict_set(self, d, key, val):
        k = _hkey(key)
        if k is None:
            # a key whose equality with the existing keys is symbolic: decide it key by key
            if self.ctx.spec:
                raise EngineError('symbolic dictionary key in a specification')
            for kk in list(d.items):
                if self.ctx.branch(self.equal_term(key, kk)):
                    d.items[kk] = val
                    return
            try:
                hash(key)
            except TypeError:
                raise EngineError('unhashable symbolic dictionary key')
            d.items[key] = val
            return
        d.items[k] = val

    def eval_Attribute(self, node, frame):
        v = self.eval(node.value, frame)
        return self.getattr(v, node.attr, _src(node))

    def getattr(self, v, name, src=''):
        if isinstance(v, Obj):
            if name in v.fields:
                fv = v.fields[name]
                if isinstance(fv, V.LazyField):
                    saved, self.ctx.spec = self.ctx.spec, 0     # the construction may fork
                    try:
                        fv = v.fields[name] = fv.fn(self)
                    finally:
                        self.ctx.spec = saved
                return fv
            if name == '__class__':
                return v.cls
            if name == '__dict__':
                return PyDict(dict(v.fields))
            r = self.class_lookup(v.cls, name)
            if r is not None:
                owner, st = r
                mv = self.class_member_value(owner, name, st)
                if isinstance(mv, Func) and isinstance(st, ast.FunctionDef):
                    if mv.is_property:
                        return self.call_function(mv, [v], {})
                    if mv.is_static:
                        return mv
                    if mv.is_classmethod:
                        return BoundMethod(mv, v.cls)
                    return BoundMethod(mv, v)
                return mv
            if v.cls.is_subclass_of(self.program.builtin_classes['BaseException']) and name == 'args':
                return ()
            ga = self.class_lookup(v.cls, '__getattr__')
            if ga is not None:
                return self.call_method(v, '__getattr__', [name], {})
            if v.open:
                return Opaque('unspecified field %s.%s' % (v.cls.name, name))
            self.raise_builtin('AttributeError', 'wd:attr[%s]' % (src or name))
        if is_str(v):
            if name in self.B.STR_METHODS:
                return BuiltinMethod('str.' + name, v)
            self.raise_builtin('AttributeError', 'wd:attr[%s]' % (src or name))
        if isinstance(v, PyList):
            return BuiltinMethod('list.' + name, v)
        if isinstance(v, PyDict):
            return BuiltinMethod('dict.' + name, v)
        if isinstance(v, (PySet, frozenset)):
            return BuiltinMethod('set.' + name, v)
        if isinstance(v, tuple):
            return BuiltinMethod('tuple.' + name, v)
        if isinstance(v, ModuleVal):
            m = v.info
            if name in m.defs:
                return self.module_get(m, name)
            try:
                return self.module_get(m, name)        # e.g. names re-exported by `from x import *`
            except KeyError:
                pass
            sub = self.program.module(m.name + '.' + name)
            if sub is not None:
                return ModuleVal(sub)
            self.raise_builtin('AttributeError', 'wd:attr[%s]' % (src or name))
        if isinstance(v, BuiltinModule):
            if name in v.attrs:
                return v.attrs[name]
            return Opaque('%s.%s' % (v.name, name))
        if isinstance(v, ClassInfo):
            if name == '__name__':
                return v.name
            r = self.class_lookup(v, name)
            if r is not None:
                owner, st = r
                mv = self.class_member_value(owner, name, st)
                if isinstance(mv, Func) and mv.is_classmethod:
                    return BoundMethod(mv, v)
                return mv
            if v.builtin or any(c.builtin for c in v.mro()):
                if name == '__init__':
                    return Builtin('object.__init__', lambda it, a, k: None)
            self.raise_builtin('AttributeError', 'wd:attr[%s]' % (src or name))
        if isinstance(v, SuperVal):
            r = self.class_lookup(v.obj.cls if isinstance(v.obj, Obj) else v.obj, name, start_after=v.cls)
            if r is not None and not r[0].builtin:
                owner, st = r
                mv = self.class_member_value(owner, name, st)
                if isinstance(mv, Func):
                    if mv.is_static:
                        return mv
                    return BoundMethod(mv, v.obj)
                return mv
            if name == '__init__':
                if isinstance(v.obj, Obj) and any(c.name == 'BaseException' for c in v.obj.cls.mro()):
                    o = v.obj

                    def exc_init(it2, a, k, o=o):
                        if k:
                            it2.raise_builtin('TypeError', 'wd:bind[exception __init__ takes no keyword arguments]')
                        o.fields['args'] = tuple(a)
                        return None
                    return Builtin('BaseException.__init__', exc_init)
                return BuiltinMethod('object.__init__', v.obj)
            if name in ('__enter__', '__exit__', '__repr__', '__str__'):
                return BuiltinMethod('object.' + name, v.obj)
            self.raise_builtin('AttributeError', 'wd:attr[super().%s]' % name)
        if v is None:
            self.raise_builtin('AttributeError', 'wd:none[%s]' % (src or name))
        if isinstance(v, LoggerVal):
            return Builtin('logger.' + name, lambda it, a, k: None)
        if isinstance(v, Opaque):
            return Opaque('%s.%s' % (v.why, name))
        if isinstance(v, (Func, BoundMethod)):
            if name == '__name__':
                return (v.func if isinstance(v, BoundMethod) else v).name
            if name == '__self__' and isinstance(v, BoundMethod):
                return v.recv
            if name == '__doc__':
                return None
            self.raise_builtin('AttributeError', 'wd:attr[%s]' % (src or name))
        if is_int(v) or is_boolv(v):
            self.raise_builtin('AttributeError', 'wd:attr[%s]' % (src or name))
        if isinstance(v, TypeMarker):
            return self.B.type_attr(self, v, name)
        if isinstance(v, CharSet):
            return BuiltinMethod('charset.' + name, v)
        if hasattr(v, 'pyvc_getattr'):
            return v.pyvc_getattr(self, name)
        raise EngineError('attribute %s of %r' % (name, v))

    def hasattr(self, v, name):
        # builtin containers and scalars: exactly the attributes CPython gives them
        if isinstance(v, tuple):
            return hasattr((), name)
        if isinstance(v, PyList):
            return hasattr([], name)
        if isinstance(v, PyDict):
            return hasattr({}, name)
        if v is None:
            return hasattr(None, name)
        if is_str(v):
            return hasattr('', name)
        try:
            self.getattr(v, name)
            return True
        except PyExc as e:
            if e.value.cls.name == 'AttributeError':
                return False
            raise

    def setattr(self, v, name, val):
        if isinstance(v, Obj):
            r = self.class_lookup(v.cls, name)
            if r is not None and isinstance(r[1], ast.FunctionDef):
                mv = self.class_member_value(r[0], name, r[1])
                if isinstance(mv, Func) and mv.is_property:
                    self.raise_builtin('AttributeError', "wd:attr[can't set property %s]" % name)
            sa = self.class_lookup(v.cls, '__setattr__')
            if sa is not None and not sa[0].builtin:
                raise EngineError('class with __setattr__')
            v.fields[name] = val
            v.written.add(name)
            if self.heap_log is not None:
                self.heap_log.append((v, name))
            return
        if v is None:
            self.raise_builtin('AttributeError', 'wd:none[store .%s]' % name)
        if isinstance(v, ClassInfo):
            raise EngineError('store to class attribute %s.%s' % (v.name, name))
        if isinstance(v, Opaque):
            raise EngineError('store to attribute of opaque value')
        raise EngineError('setattr on %r' % (v,))

    def eval_Call(self, node, frame):
        # A-LOG: logging / deprecation helpers are no-ops (their argument expressions are evaluated, see below)
        f = node.func
        if isinstance(f, ast.Name) and f.id == 'implies' and self.ctx.spec and len(node.args) == 2:
            a = self.truth_term(self.eval(node.args[0], frame))
            if isinstance(a, bool):
                if not a:
                    return True
                return self.truth_term(self.eval(node.args[1], frame))
            return z_or(z_not(a), self.truth_term(self.eval(node.args[1], frame)))
        if isinstance(f, ast.Name) and f.id == 'old' and self.ctx.spec:
            table = self.lookup('__old__', frame)
            ov = table[ast.unparse(node.args[0])]
            if isinstance(ov, EngineError):
                raise ov
            return ov
        if isinstance(f, ast.Attribute) and f.attr in _LOG_METHODS and isinstance(f.value, ast.Name) \
                and f.value.id in ('logger', '_logger', 'logging'):
            self.ctx.collector.dropped_calls.append(
                '%s:%d %s' % (frame.module.name, node.lineno, f.value.id + '.' + f.attr))
            # the call itself is a no-op (A-LOG: records are not formatted while the level is disabled), but Python
            # evaluates its argument expressions eagerly: an exception raised there is real behaviour
            if not self.ctx.spec:
                for a in list(node.args) + [kw.value for kw in node.keywords]:
                    if isinstance(a, (ast.Constant, ast.Name)):
                        continue
                    try:
                        self.eval(a.value if isinstance(a, ast.Starred) else a, frame)
                    except EngineError as e:
                        self.ctx.collector.dropped_calls.append(
                            '%s:%d argument of %s not evaluated: %s' % (frame.module.name, node.lineno, f.value.id + '.' + f.attr, str(e)[:80]))
            return None
        if isinstance(f, ast.Attribute) and f.attr.startswith('pylatexenc_deprecated_'):
            self.ctx.collector.dropped_calls.append(
                '%s:%d %s' % (frame.module.name, node.lineno, f.attr))
            return None
        if isinstance(f, ast.Name) and f.id.startswith('pylatexenc_deprecated_'):
            return None
        # zero-argument super()
        if isinstance(f, ast.Name) and f.id == 'super' and not node.args:
            fn = frame
            while fn is not None and (fn.func is None or fn.func.owner is None):
                fn = fn.parent
            if fn is None:
                raise EngineError('super() outside a method')
            selfname = fn.func.node.args.args[0].arg
            return SuperVal(fn.func.owner, fn.vars[selfname])
        if isinstance(f, ast.Name) and f.id == 'globals' and not node.args and not node.keywords:
            return _GlobalsView(self, frame.module)
        fv = self.eval(f, frame)
        args = []
        for a in node.args:
            if isinstance(a, ast.Starred):
                sv = self.eval(a.value, frame)
                if isinstance(sv, PyList) and sv.items is None:
                    args.append(StarSym(sv))      # only library models know what to do with it
                else:
                    args.extend(self.iter_values(sv))
            else:
                args.append(self.eval(a, frame))
        kwargs = {}
        for kw in node.keywords:
            if kw.arg is None:
                d = self.eval(kw.value, frame)
                if isinstance(d, PyDict):
                    for k, v in d.items.items():
                        if not isinstance(k, str):
                            self.raise_builtin('TypeError', 'wd:bind[keywords must be strings]')
                        if k in kwargs:
                            self.raise_builtin('TypeError', 'wd:bind[multiple values for %s]' % k)
                        kwargs[k] = v
                elif d is None:
                    self.raise_builtin('TypeError', 'wd:bind[** of None]')
                else:
                    raise EngineError('** of %r' % (d,))
            else:
                kwargs[kw.arg] = self.eval(kw.value, frame)
        return self.call(fv, args, kwargs, node)

    def call(self, fv, args, kwargs, node=None):
        if any(isinstance(a, StarSym) for a in args) and not isinstance(fv, Builtin):
            raise EngineError('*args of a symbolic-length list passed to %r' % (fv,))
        if isinstance(fv, Func):
            return self.call_function(fv, args, kwargs, node)
        if isinstance(fv, BoundMethod):
            return self.call_function(fv.func, [fv.recv] + list(args), kwargs, node)
        if isinstance(fv, Builtin):
            return fv.fn(self, args, kwargs)
        if isinstance(fv, BuiltinMethod):
            return self.B.call_builtin_method(self, fv, args, kwargs, node)
        if isinstance(fv, ClassInfo):
            return self.instantiate(fv, args, kwargs, node)
        if isinstance(fv, Partial):
            kw = dict(fv.kwargs)
            kw.update(kwargs)
            return self.call(fv.func, list(fv.args) + list(args), kw, node)
        if isinstance(fv, TypeMarker):
            return self.B.call_type(self, fv, args, kwargs)
        if isinstance(fv, SpecFn):
            return fv.fn(self, *args, **kwargs)
        if isinstance(fv, Obj):
            if self.class_lookup(fv.cls, '__call__'):
                return self.call_method(fv, '__call__', args, kwargs)
            self.raise_builtin('TypeError', 'wd:type[object not callable]')
        if fv is None:
            self.raise_builtin('TypeError', 'wd:none[call of None %s]' % _src(node))
        if isinstance(fv, Opaque):
            return self.opaque_call(fv, args, kwargs, node)
        if hasattr(fv, 'pyvc_call'):
            return fv.pyvc_call(self, args, kwargs)
        if isinstance(fv, V.AbsVal) and '__call__' in fv.methods:
            return fv.methods['__call__'](self, fv, args, kwargs)
        if is_str(fv) or is_int(fv) or isinstance(fv, (PyList, PyDict, PySet, tuple, frozenset)) or is_boolv(fv):
            self.raise_builtin('TypeError', 'wd:type[object is not callable %s]' % _src(node))
        raise EngineError('call of %r' % (fv,))

    def opaque_call(self, fv, args, kwargs, node):
        self.ctx.opaque_hits.append('call of %s at %s' % (fv.why, _src(node)))
        raise EngineError('call of opaque value %s' % fv.why)

    def call_method(self, obj, name, args, kwargs):
        m = self.getattr(obj, name)
        return self.call(m, args, kwargs)

    def instantiate(self, cls, args, kwargs, node=None):
        if cls.builtin:
            o = Obj(cls, {'args': tuple(args)})
            return o
        if self.registry is not None:
            c = self.registry.class_contract(cls)
            if c is not None:
                r = c.instantiate(self, cls, args, kwargs, node)
                if r is not NotImplemented:
                    return r
        o = Obj(cls)
        r = self.class_lookup(cls, '__init__')
        if r is None or r[0].builtin:
            if any(c.name == 'BaseException' for c in cls.mro()):
                o.fields['args'] = tuple(args)
            elif args or kwargs:
                self.raise_builtin('TypeError', 'wd:bind[%s() takes no arguments]' % cls.name)
            return o
        if any(c.name == 'BaseException' for c in cls.mro()):
            o.fields['args'] = tuple(args)
        init = self.class_member_value(r[0], '__init__', r[1])
        self.call_function(init, [o] + list(args), kwargs, node)
        return o

    # ------------------------------------------------------------------ calling
    def get_defaults(self, func):
        key = id(func.node)
        if key in self.default_cache:
            return self.default_cache[key]
        a = func.node.args
        fr = func.closure if func.closure is not None else self._module_frame(func.module)
        if func.owner is not None and func.closure is None:
            fr = Frame(func.module)
            fr.vars = _ClassVars(self, func.owner)
        d = [self.eval(e, fr) for e in a.defaults]
        kd = [None if e is None else self.eval(e, fr) for e in a.kw_defaults]
        self.default_cache[key] = (d, kd)
        return d, kd

    def bind_args(self, func, args, kwargs, node=None):
        a = func.node.args
        d, kd = self.get_defaults(func)
        params = [p.arg for p in getattr(a, 'posonlyargs', [])] + [p.arg for p in a.args]
        bound = {}
        fname = func.name
        args = list(args)
        if len(args) > len(params):
            if a.vararg is None:
                self.raise_builtin('TypeError', 'wd:bind[%s() takes %d positional arguments but %d were given]'
                                   % (fname, len(params), len(args)))
            bound[a.vararg.arg] = tuple(args[len(params):])
            args = args[:len(params)]
        elif a.vararg is not None:
            bound[a.vararg.arg] = ()
        for p, v in zip(params, args):
            bound[p] = v
        extra = {}
        kwonly = [p.arg for p in a.kwonlyargs]
        for k, v in kwargs.items():
            if k in bound:
                self.raise_builtin('TypeError', 'wd:bind[%s() got multiple values for argument %s]' % (fname, k))
            if k in params or k in kwonly:
                bound[k] = v
            elif a.kwarg is not None:
                extra[k] = v
            else:
                self.raise_builtin('TypeError', 'wd:bind[%s() got an unexpected keyword argument %s]' % (fname, k))
        if a.kwarg is not None:
            bound[a.kwarg.arg] = PyDict(extra)
        nd = len(d)
        for i, p in enumerate(params):
            if p not in bound:
                j = i - (len(params) - nd)
                if j >= 0:
                    bound[p] = d[j]
                else:
                    self.raise_builtin('TypeError', 'wd:bind[%s() missing required argument %s]' % (fname, p))
        for p, dv, de in zip(kwonly, kd, a.kw_defaults):
            if p not in bound:
                if de is None:
                    self.raise_builtin('TypeError', 'wd:bind[%s() missing keyword-only argument %s]' % (fname, p))
                bound[p] = dv
        return bound

    def call_function(self, func, args, kwargs, node=None):
        if self.registry is not None and not self.ctx.spec:
            c = self.registry.contract_for_call(self, func)
            if c is not None:
                bound = self.bind_args(func, args, kwargs, node)
                return c.apply_at_call(self, func, bound, node)
        bound = self.bind_args(func, args, kwargs, node)
        return self.run_function(func, bound)

    def run_function(self, func, bound):
        self.depth += 1
        if self.depth > self.max_depth:
            self.depth -= 1
            raise EngineError('call depth limit (recursion without contract?) at %s' % func.qualname)
        fr = Frame(func.module, func, func.closure)
        fr.vars = dict(bound)
        self.func_stack.append(func.qualname)
        try:
            if isinstance(func.node, ast.Lambda):
                return self.eval(func.node.body, fr)
            if func.is_generator:
                fr.yields = PyList([])
                fr.vars['__yield__'] = fr.yields
                try:
                    self.exec_block(func.node.body, fr)
                except _Return:
                    pass
                return fr.yields
            try:
                self.exec_block(func.node.body, fr)
            except _Return as r:
                return r.value
            return None
        finally:
            self.depth -= 1
            self.func_stack.pop()

    # ------------------------------------------------------------------ iteration
    def iter_values(self, v):
        """Concrete python list of the elements of an iterable value."""
        if isinstance(v, tuple):
            return list(v)
        if isinstance(v, PyList):
            if v.items is None:
                raise EngineError('iteration over a symbolic list (needs a loop contract)')
            return list(v.items)
        if isinstance(v, str):
            return list(v)
        if isinstance(v, SStr):
            n = V.slen(v)
            if isinstance(n, int):
                return [V.sslice(self.ctx, v, i, i + 1) for i in range(n)]
            raise EngineError('iteration over a symbolic string (needs a loop contract)')
        if isinstance(v, PyDict):
            return list(v.items.keys())
        if isinstance(v, PySet):
            return list(v.items)
        if isinstance(v, frozenset):
            return sorted(v, key=repr)
        if v is None:
            self.raise_builtin('TypeError', 'wd:none[iteration over None]')
        if isinstance(v, Obj) and self.class_lookup(v.cls, '__iter__'):
            return self.iter_values(self.call_method(v, '__iter__', [], {}))
        if hasattr(v, 'pyvc_iter'):
            return v.pyvc_iter(self)
        if is_int(v):
            self.raise_builtin('TypeError', 'wd:type[int not iterable]')
        raise EngineError('iteration over %r' % (v,))

    def _comprehension(self, node, frame, emit, first_iter=None):
        fr = Frame(frame.module, frame.func, frame)

        def rec(i):
            if i == len(node.generators):
                emit(fr)
                return
            g = node.generators[i]
            it = first_iter[0] if (i == 0 and first_iter is not None) else self.eval(g.iter, fr if i else frame)
            for x in self.iter_values(it):
                self.assign(g.target, x, fr)
                if all(self.truthy(self.eval(c, fr)) for c in g.ifs):
                    rec(i + 1)
        rec(0)

    def eval_ListComp(self, node, frame):
        src = [self.eval(node.generators[0].iter, frame)]      # evaluated exactly once
        for h in (getattr(self.registry, 'comp_hooks', None) or []):
            r = h(self, node, frame, src[0])
            if r is not None:
                return r
        g = self._generic_comprehension(node, frame, src[0])
        if g is not None:
            return g
        out = []
        self._comprehension(node, frame, lambda fr: out.append(self.eval(node.elt, fr)), first_iter=src)
        return PyList(out)

    def _generic_comprehension(self, node, frame, src):
        """[f(c) for c in s] over a symbolic string s: the element expression is evaluated once for an
        arbitrary character of s (so its obligations hold for every element); the result is a list of
        unknown length whose elements are only known by that generic value's kind (GenericList)."""
        if len(node.generators) != 1 or node.generators[0].ifs:
            return None
        g = node.generators[0]
        if not isinstance(g.target, ast.Name):
            return None
        if not isinstance(src, V.SStr) or isinstance(src, str):
            return None
        n = V.slen(src)
        if isinstance(n, int):
            return None
        fr = Frame(frame.module, frame.func, frame)
        if not self.ctx.branch(zint(n) > 0):
            return PyList([])
        i = self.ctx.fresh_int('generic_index')
        self.ctx.assume(z3.And(i >= 0, i < zint(n)))
        self.assign(g.target, V.sslice(self.ctx, src, i, simp(i + 1)), fr)
        elem = self.eval(node.elt, fr)
        return V.GenericList(elem)

    def eval_GeneratorExp(self, node, frame):
        return self.eval_ListComp(node, frame)

    def eval_SetComp(self, node, frame):
        out = []
        self._comprehension(node, frame, lambda fr: out.append(self.eval(node.elt, fr)))
        return self.B.make_set(self, out)

    def eval_DictComp(self, node, frame):
        d = PyDict()
        self._comprehension(node, frame,
                            lambda fr: self.dict_set(d, self.eval(node.key, fr), self.eval(node.value, fr)))
        return d

    def eval_Starred(self, node, frame):
        raise EngineError('starred expression')

    def eval_Yield(self, node, frame):
        fr = frame
        while fr is not None and fr.yields is None:
            fr = fr.parent
        if fr is None:
            raise EngineError('yield outside generator')
        v = self.eval(node.value, frame) if node.value is not None else None
        self.B.list_append(self, fr.yields, v)
        return None

    def eval_NamedExpr(self, node, frame):
        v = self.eval(node.value, frame)
        self.assign(node.target, v, frame)
        return v

    # ------------------------------------------------------------------ fresh values
    def fresh_str(self, hint='s'):
        n = self.ctx.next_id()
        base = StrBase('%s!%d' % (hint, n))
        self.ctx.assume(base.length >= 0)
        return base.whole()

    def fresh_like(self, v, hint):
        if isinstance(v, bool) or isinstance(v, z3.BoolRef):
            return self.ctx.fresh_bool(hint)
        if is_int(v):
            return self.ctx.fresh_int(hint)
        if is_str(v):
            return self.fresh_str(hint)
        return None

    # ------------------------------------------------------------------ statements
    def exec_block(self, stmts, frame):
        for st in stmts:
            self.exec(st, frame)

    def exec(self, node, frame):
        self.ctx.loc = 'L%d' % node.lineno
        m = getattr(self, 'exec_' + type(node).__name__, None)
        if m is None:
            raise EngineError('statement %s' % type(node).__name__)
        return m(node, frame)

    def exec_Expr(self, node, frame):
        if isinstance(node.value, ast.Constant):
            return
        self.eval(node.value, frame)

    def exec_Pass(self, node, frame):
        pass

    def exec_Global(self, node, frame):
        frame.globals_decl.update(node.names)

    def exec_Nonlocal(self, node, frame):
        raise EngineError('nonlocal')

    def exec_Import(self, node, frame):
        for a in node.names:
            nm = a.asname or a.name.split('.')[0]
            frame.vars[nm] = self.import_module(a.name if a.asname else a.name.split('.')[0], frame.module, 0)

    def exec_ImportFrom(self, node, frame):
        for a in node.names:
            frame.vars[a.asname or a.name] = self.import_from(frame.module, node.level, node.module, a.name)

    def exec_FunctionDef(self, node, frame):
        qn = (frame.func.qualname if frame.func else frame.module.name) + '.' + node.name
        frame.vars[node.name] = self.make_func(node, frame.module, frame, None, qn)

    def exec_ClassDef(self, node, frame):
        if node.decorator_list or node.keywords:
            raise EngineError('nested class definition with decorators / keywords')
        bases = []
        for b in node.bases:
            bv = self.eval(b, frame)
            if isinstance(bv, ClassInfo):
                bases.append(bv)
            elif isinstance(bv, TypeMarker) and bv.name == 'object':
                bases.append(self.program.builtin_classes['object'])
            else:
                raise EngineError('base class %s of local class %s' % (ast.unparse(b), node.name))
        ci = ClassInfo(node.name, frame.module, node, bases or [self.program.builtin_classes['object']])
        ci.closure = frame          # methods of a local class see the enclosing function's variables
        frame.vars[node.name] = ci

    def exec_Return(self, node, frame):
        v = self.eval(node.value, frame) if node.value is not None else None
        raise _Return(v)

    def exec_Break(self, node, frame):
        raise _Break()

    def exec_Continue(self, node, frame):
        raise _Continue()

    def exec_Assert(self, node, frame):
        t = self.truth_term(self.eval(node.test, frame))
        if not self.wd('assert', _src(node.test), t):
            self.raise_builtin('AssertionError', 'wd:assert[%s]' % _src(node.test))

    def exec_Delete(self, node, frame):
        for t in node.targets:
            if isinstance(t, ast.Subscript) and isinstance(t.slice, ast.Slice) and t.slice.lower is None \
                    and t.slice.upper is None and t.slice.step is None:
                c = self.eval(t.value, frame)
                if isinstance(c, PyList):
                    if self.heap_log is not None:
                        self.heap_log.append((c, '[]'))
                    if c.items is not None:
                        del c.items[:]
                    else:
                        c.length = 0
                    continue
                raise EngineError('del x[:] on %r' % (c,))
            if isinstance(t, ast.Subscript):
                c = self.eval(t.value, frame)
                k = self.eval(t.slice, frame)
                if isinstance(c, PyDict):
                    hk = _hkey(k)
                    if hk is None:
                        raise EngineError('del with symbolic key')
                    if hk not in c.items:
                        self.raise_builtin('KeyError', 'wd:key[del %s]' % _src(t))
                    del c.items[hk]
                    continue
                if isinstance(c, PyList) and c.items is not None and isinstance(k, int):
                    if not (-len(c.items) <= k < len(c.items)):
                        self.raise_builtin('IndexError', 'wd:index[del %s]' % _src(t))
                    del c.items[k]
                    continue
            elif isinstance(t, ast.Name):
                if t.id in frame.vars:
                    del frame.vars[t.id]
                    continue
            raise EngineError('del %s' % _src(t))

    def exec_Assign(self, node, frame):
        v = self.eval(node.value, frame)
        for t in node.targets:
            self.assign(t, v, frame)

    def exec_AnnAssign(self, node, frame):
        if node.value is not None:
            self.assign(node.target, self.eval(node.value, frame), frame)

    def exec_AugAssign(self, node, frame):
        t = node.target
        if isinstance(t, ast.Name):
            cur = self.lookup(t.id, frame, t)
            new = self.aug(node.op, cur, self.eval(node.value, frame))
            self.assign(t, new, frame)
        elif isinstance(t, ast.Attribute):
            o = self.eval(t.value, frame)
            cur = self.getattr(o, t.attr, _src(t))
            new = self.aug(node.op, cur, self.eval(node.value, frame))
            if new is not cur or not isinstance(cur, (PyList, PyDict, PySet)):
                self.setattr(o, t.attr, new)
        elif isinstance(t, ast.Subscript):
            c = self.eval(t.value, frame)
            k = self.eval(t.slice, frame)
            cur = self.index_value(c, k, t)
            new = self.aug(node.op, cur, self.eval(node.value, frame))
            self.store_subscript(c, k, new, t)
        else:
            raise EngineError('augmented assignment target')

    def aug(self, op, cur, val):
        if isinstance(cur, PyList) and isinstance(op, ast.Add):
            self.B.list_extend(self, cur, val)
            return cur
        return self.binop(op, cur, val)

    def assign(self, t, v, frame):
        if isinstance(t, ast.Name):
            if t.id in frame.globals_decl:
                self.module_state[(frame.module.name, t.id)] = v
            else:
                frame.vars[t.id] = v
        elif isinstance(t, (ast.Tuple, ast.List)):
            items = self.iter_values(v) if not isinstance(v, Opaque) else None
            if items is None:
                raise EngineError('unpacking an opaque value')
            star = [i for i, e in enumerate(t.elts) if isinstance(e, ast.Starred)]
            if star:
                i = star[0]
                after = len(t.elts) - i - 1
                if len(items) < len(t.elts) - 1:
                    self.raise_builtin('ValueError', 'wd:unpack[%s]' % _src(t))
                for e, x in zip(t.elts[:i], items[:i]):
                    self.assign(e, x, frame)
                self.assign(t.elts[i].value, PyList(items[i:len(items) - after]), frame)
                for e, x in zip(t.elts[i + 1:], items[len(items) - after:]):
                    self.assign(e, x, frame)
                return
            if len(items) != len(t.elts):
                self.raise_builtin('ValueError', 'wd:unpack[%s]' % _src(t))
            for e, x in zip(t.elts, items):
                self.assign(e, x, frame)
        elif isinstance(t, ast.Attribute):
            o = self.eval(t.value, frame)
            self.setattr(o, t.attr, v)
        elif isinstance(t, ast.Subscript):
            c = self.eval(t.value, frame)
            if isinstance(t.slice, ast.Slice):
                raise EngineError('slice assignment')
            k = self.eval(t.slice, frame)
            self.store_subscript(c, k, v, t)
        else:
            raise EngineError('assignment target %s' % type(t).__name__)

    def store_subscript(self, c, k, v, node=None):
        if isinstance(c, PyDict):
            self.dict_set(c, k, v)
            if self.heap_log is not None:
                self.heap_log.append((c, '[]'))
            return
        if isinstance(c, PyList):
            if self.heap_log is not None:
                self.heap_log.append((c, '[]'))
            if c.items is not None and isinstance(k, int):
                if not (-len(c.items) <= k < len(c.items)):
                    self.raise_builtin('IndexError', 'wd:index[store %s]' % _src(node))
                c.items[k] = v
                return
            if c.items is None and is_int(k) and is_int(v):
                if not self.ctx.branch(z3.And(zint(k) >= 0, zint(k) < c.length)):
                    self.raise_builtin('IndexError', 'wd:index[store %s]' % _src(node))
                c.arr = z3.Store(c.arr, zint(k), zint(v))
                return
            raise EngineError('symbolic list store')
        if isinstance(c, Obj) and self.class_lookup(c.cls, '__setitem__'):
            self.call_method(c, '__setitem__', [k, v], {})
            return
        if hasattr(c, 'pyvc_store'):
            c.pyvc_store(self, k, v)
            if self.heap_log is not None:
                self.heap_log.append((c, '[]'))
            return
        if c is None:
            self.raise_builtin('TypeError', 'wd:none[store %s]' % _src(node))
        if isinstance(c, tuple) or is_str(c):
            self.raise_builtin('TypeError', 'wd:type[item assignment on immutable %s]' % _src(node))
        raise EngineError('subscript store on %r' % (c,))

    def exec_If(self, node, frame):
        if self.truthy(self.eval(node.test, frame)):
            self.exec_block(node.body, frame)
        else:
            self.exec_block(node.orelse, frame)

    def exec_Raise(self, node, frame):
        if node.exc is None:
            fr = frame
            while fr is not None and fr.cur_exc is None:
                fr = fr.parent
            if fr is None:
                self.raise_builtin('RuntimeError', 'wd:raise[no active exception]')
            raise fr.cur_exc
        e = self.eval(node.exc, frame)
        if isinstance(e, ClassInfo):
            e = self.instantiate(e, [], {}, node)
        if not isinstance(e, Obj) or not any(c.name == 'BaseException' for c in e.cls.mro()):
            self.raise_builtin('TypeError', 'wd:type[exceptions must derive from BaseException]')
        if node.cause is not None:
            self.eval(node.cause, frame)
        raise PyExc(e, 'raise@%s' % _src(node.exc)[:60])

    def exc_matches(self, exc_obj, tv):
        if isinstance(tv, tuple):
            return any(self.exc_matches(exc_obj, x) for x in tv)
        if isinstance(tv, ClassInfo):
            return exc_obj.cls.is_subclass_of(tv)
        raise EngineError('except clause type %r' % (tv,))

    def exec_Try(self, node, frame):
        pending = None
        try:
            try:
                self.exec_block(node.body, frame)
            except PyExc as pe:
                handled = False
                for h in node.handlers:
                    if h.type is None or self.exc_matches(pe.value, self.eval(h.type, frame)):
                        handled = True
                        if h.name:
                            frame.vars[h.name] = pe.value
                        saved = frame.cur_exc
                        frame.cur_exc = pe
                        try:
                            self.exec_block(h.body, frame)
                        finally:
                            frame.cur_exc = saved
                            if h.name:
                                frame.vars.pop(h.name, None)
                        break
                if not handled:
                    raise
            else:
                self.exec_block(node.orelse, frame)
        except (PyExc, _Return, _Break, _Continue) as sig:
            pending = sig
        if node.finalbody:
            self.exec_block(node.finalbody, frame)
        if pending is not None:
            raise pending

    def exec_With(self, node, frame):
        def rec(i):
            if i == len(node.items):
                self.exec_block(node.body, frame)
                return
            it = node.items[i]
            mgr = self.eval(it.context_expr, frame)
            if isinstance(mgr, Opaque):
                raise EngineError('with on opaque value')
            if hasattr(mgr, 'pyvc_enter'):
                val = mgr.pyvc_enter(self)
            else:
                val = self.call_method(mgr, '__enter__', [], {})
            if it.optional_vars is not None:
                self.assign(it.optional_vars, val, frame)
            try:
                rec(i + 1)
            except PyExc as pe:
                if hasattr(mgr, 'pyvc_exit'):
                    r = mgr.pyvc_exit(self, pe)
                else:
                    r = self.call_method(mgr, '__exit__', [pe.value.cls, pe.value, Opaque('traceback')], {})
                if self.truthy(r):
                    return
                raise
            except (_Return, _Break, _Continue):
                if hasattr(mgr, 'pyvc_exit'):
                    mgr.pyvc_exit(self, None)
                else:
                    self.call_method(mgr, '__exit__', [None, None, None], {})
                raise
            else:
                if hasattr(mgr, 'pyvc_exit'):
                    mgr.pyvc_exit(self, None)
                else:
                    self.call_method(mgr, '__exit__', [None, None, None], {})
        rec(0)

    # ------------------------------------------------------------------ loops
    def _loop_contract(self, node, frame):
        if self.registry is None or frame.func is None:
            return None
        return self.registry.loop_contract(self, frame.func, node)

    def exec_While(self, node, frame):
        lc = self._loop_contract(node, frame)
        if lc is not None:
            return lc.run_while(self, node, frame)
        n = 0
        while True:
            if not self.truthy(self.eval(node.test, frame)):
                self.exec_block(node.orelse, frame)
                return
            try:
                self.exec_block(node.body, frame)
            except _Break:
                return
            except _Continue:
                pass
            n += 1
            if n > self.unroll_limit:
                raise EngineError('while loop without contract exceeds unroll limit in %s'
                                  % (frame.func.qualname if frame.func else '?'))

    def exec_For(self, node, frame):
        lc = self._loop_contract(node, frame)
        it = self.eval(node.iter, frame)
        if lc is not None and not ((isinstance(it, PyList) and it.items is not None) or isinstance(it, (tuple, str))):
            # a loop contract is needed (and used) only for sequences of unknown length; a concrete list is simply iterated
            return lc.run_for(self, node, frame, it)
        items = self.iter_values(it)
        for x in items:
            self.assign(node.target, x, frame)
            try:
                self.exec_block(node.body, frame)
            except _Break:
                return
            except _Continue:
                pass
        self.exec_block(node.orelse, frame)

    # ------------------------------------------------------------------ spec helpers
    def eval_src(self, src, frame):
        node = _parse_cache(src)
        return self.eval(node, frame)

    def spec_eval(self, src, frame):
        self.ctx.spec += 1
        try:
            return self.eval_src(src, frame)
        except PyExc as e:
            raise EngineError('specification %r is not well defined here: %s' % (src[:80], e))
        finally:
            self.ctx.spec -= 1

    def spec_truth(self, src, frame):
        self.ctx.spec += 1
        try:
            return self.truth_term(self.eval_src(src, frame))
        except PyExc as e:
            raise EngineError('specification %r is not well defined here: %s' % (src[:80], e))
        finally:
            self.ctx.spec -= 1


_PARSED = {}


def _parse_cache(src):
    n = _PARSED.get(src)
    if n is None:
        n = ast.parse(src.strip(), mode='eval').body
        _PARSED[src] = n
    return n


class _Unbound(object):
    pass


_UNBOUND = _Unbound()


class _ModuleVars(object):
    """dict-like view of module globals for module-level evaluation frames."""
    def __init__(self, interp, mod):
        self.interp = interp
        self.mod = mod

    def __contains__(self, name):
        return name in self.mod.defs or (self.mod.name, name) in self.interp.module_state

    def __getitem__(self, name):
        return self.interp.module_get(self.mod, name)

    def __setitem__(self, name, v):
        self.interp.module_state[(self.mod.name, name)] = v

    def get(self, name, default=None):
        return self[name] if name in self else default

    def pop(self, name, default=None):
        return default


class _ClassVars(object):
    def __init__(self, interp, cls):
        self.interp = interp
        self.cls = cls

    def __contains__(self, name):
        return name in self.cls.members and not isinstance(self.cls.members[name], ast.FunctionDef)

    def __getitem__(self, name):
        return self.interp.class_member_value(self.cls, name, self.cls.members[name])

    def __setitem__(self, name, v):
        raise EngineError('assignment in class-body frame')

    def pop(self, name, default=None):
        return default


def _has_own_yield(fn):
    todo = list(fn.body)
    while todo:
        n = todo.pop()
        if isinstance(n, (ast.Yield, ast.YieldFrom)):
            return True
        if isinstance(n, (ast.FunctionDef, ast.Lambda, ast.ClassDef)):
            continue
        todo.extend(ast.iter_child_nodes(n))
    return False


def _src(node):
    if node is None:
        return ''
    try:
        return ast.unparse(node)
    except Exception:
        return ''


def _bool_to_int(v):
    if isinstance(v, bool):
        return int(v)
    if isinstance(v, z3.BoolRef):
        return z3.If(v, 1, 0)
    return v


def _kind(v):
    if v is None:
        return 'none'
    if is_boolv(v):
        return 'bool'
    if is_int(v):
        return 'int'
    if is_str(v):
        return 'str'
    if isinstance(v, tuple):
        return 'tuple'
    if isinstance(v, PyList):
        return 'list'
    if isinstance(v, PyDict):
        return 'dict'
    if isinstance(v, Obj):
        return 'obj'
    return type(v).__name__


def _hkey(k):
    """Concrete hashable form of a dictionary key, or None if symbolic."""
    if k is None or isinstance(k, (str, int, bool)):
        return k
    if isinstance(k, tuple):
        parts = tuple(_hkey(x) for x in k)
        if any(p is None and x is not None for p, x in zip(parts, k)):
            return None
        return parts
    if isinstance(k, (ClassInfo, Obj, Func, TypeMarker)):
        return k
    if isinstance(k, frozenset):
        return k
    return None


def _hkey_concrete(k):
    return True


def _concrete_fmt_args(b):
    if isinstance(b, (str, int)) and not isinstance(b, bool):
        return True
    if isinstance(b, tuple):
        return all(isinstance(x, (str, int)) for x in b)
    if isinstance(b, PyDict):
        return all(isinstance(k, str) and isinstance(x, (str, int)) for k, x in b.items.items())
    return False


def _py_fmt_args(b):
    if isinstance(b, PyDict):
        return dict(b.items)
    return b
