"""pyvc -- a small verification-condition generator for a Python subset.

Reads the real function ASTs from /repo on every run, executes them
symbolically per path against sidecar contracts (see /verif/contracts), and
discharges named obligations with z3 (cvc5 for z3's unknowns).

See /verif/DESIGN.md sections 2-4 for what is encoded and what is assumed.
"""
