#!/bin/sh
# Re-run every claimed check (quick tier) on /repo itself so that committed evidence comes from the real tree.
cd /verif || exit 3
unset PYVC_REPO
rc=0
for p in $(python3 -c "import json;print(' '.join(c['property_id'] for c in json.load(open('MANIFEST.json'))['checks']))"); do
  python3-vt -m pyvc.check "$p" --tier quick "$@" || { echo "== $p exited $?"; rc=1; }
done
exit $rc
