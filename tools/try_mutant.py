"""developer helper: apply a textual mutation to a scratch copy of /repo/pylatexenc and run a check on it.
usage: try_mutant.py PID relpath 'old' 'new' [unit-filter ...]"""
import os, shutil, subprocess, sys, tempfile
pid, rel, old, new = sys.argv[1:5]
units = sys.argv[5:]
d = tempfile.mkdtemp(prefix='pyvc_mut_')
try:
    shutil.copytree('/repo/pylatexenc', os.path.join(d, 'pylatexenc'))
    p = os.path.join(d, rel)
    s = open(p).read()
    if s.count(old) != 1:
        print('pattern occurs %d times' % s.count(old)); sys.exit(2)
    open(p, 'w').write(s.replace(old, new))
    env = dict(os.environ, PYVC_REPO=d)
    cmd = ['python3-vt', '-m', 'pyvc.check', pid] + sum((['--unit', u] for u in units), [])
    r = subprocess.run(cmd, cwd='/verif', env=env, capture_output=True, text=True)
    print(r.stdout[-3000:], r.stderr[-2000:])
    print('exit', r.returncode)
finally:
    shutil.rmtree(d, ignore_errors=True)
