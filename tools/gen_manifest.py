"""Regenerate /verif/MANIFEST.json from the table below (kept in one place so
that the manifest is always valid and in step with the checks)."""
import json, os
V = os.path.dirname(os.path.dirname(os.path.abspath(__file__)))
PROPS = [json.loads(l)['id'] for l in open(os.path.join(V, 'properties.jsonl'))]

TECH = "contract-based deductive verification: pyvc VC generation from the real function ASTs, discharged by z3/cvc5"
NOTE = ("trusted base: pyvc's encoding of the Python subset (A-SEM), assumed stdlib contracts (A-LIB), logging "
        "calls dropped (A-LOG), no monkey-patching (A-DYN), SMT solver soundness (A-SMT); see evidence.assumptions")

CLAIMED = {
 'C20': dict(
   text="Unbounded proof, for all strings, positions and offset settings, that LineNumbersCalculator builds the exact "
        "line-start table (loop invariant over the real find() loop) and that pos_to_lineno_colno returns the line "
        "whose start plus column equals the position (postcondition over the real bisect lookup, incl. the embedded "
        "assert and both result shapes); LatexWalker keeps one calculator built with its own offsets, parse errors leaving "
        "parse_content carry the line / column of their own position, and format_pos (the report text) shows line and column "
        "whenever the error has them, whatever their value (line 0 / column 0 included).",
   ref="DESIGN.md section 5, C20"),
}

CLAIMED['C15'] = dict(
   text="Unbounded proof over an uninterpreted file system (realpath/join/exists/isfile/content as functions of the "
        "path string; realpath idempotent and normalised) that in strict mode the path handed to open() has a real "
        "path equal to or below the real path of the directory, for every requested name incl. the implicit "
        ".tex/.latex completion; plus: nothing opened => '', content returned unchanged, inside names are read. "
        "set_tex_input_directory stores None as None (it does not become the current directory); read_input_file makes no file "
        "access at all when no directory is configured and otherwise exactly one read_latex_file call with the configured "
        "directory and strictness. Lexical path functions (normpath, abspath, ...) are uninterpreted: nothing relates them to "
        "realpath, so a check on a merely normalised path does not discharge the clause.",
   ref="DESIGN.md section 5, C15",
   note=NOTE + "; A-FS: file system constant during one call (no TOCTOU claim)")

CLAIMED['C11'] = dict(
   text="Unbounded proof, for all strings and reader positions and with every parsing-state switch symbolic at once "
        "(flags, escape/comment characters, delimiter tables, context database present or not, strict and tolerant), "
        "of per-function contracts on the real tokenizer: no gap (pre_space == s[p0:pos]), progress and range "
        "(pos < pos_end <= len(s), also for recovery tokens), token fields partition their source slice, peek does not "
        "move on any exit, next/move_to/move_past bookkeeping, end-of-stream iff only whitespace is left; the tiling "
        "and at-most-len(s)-reads statements are lemmas over these contracts.",
   ref="DESIGN.md section 5, C11",
   note=NOTE + "; the environment-name regular expression enters as an assumed contract (A-LIB); "
        "LatexContextDb.test_for_specials/get_specials_spec are verified by their own units (shared with C14); "
        "LatexTokenListTokenReader is not covered")

CLAIMED['C19'] = dict(
   text="Unbounded proof with a ghost trace (z3 sequence of visit events) that, for every node class, "
        "accept_node_visitor dispatches exactly once to its own node_standard_process_*, which visits the children "
        "subtrees first (arguments before body, list order, None skipped), then calls the class's callback exactly once "
        "with the children's results in that order (None placeholders kept), for node lists and argument lists of "
        "any length (loop invariant over the real descend loop). Children enter through the interface contract "
        "trace' = trace ++ PO(child); the structural induction over the tree is stated, not mechanised.",
   ref="DESIGN.md section 5, C19")

CLAIMED['C14'] = dict(
   text="Unbounded proof over an abstract view (category sequence, per-category dictionaries as uninterpreted content) "
        "that the representation invariant 'each chain map mirrors category_list item for item' is established by "
        "__init__ and preserved by add_context_category in all four placement modes (inserted at the documented index, "
        "rejected without change when frozen / duplicate), by the unknown-spec setters and freeze; that "
        "get_macro/environment/specials_spec return the definition of the first category in order that defines the "
        "name, else the unknown spec; that test_for_specials returns a longest match over all categories (two nested "
        "loop invariants); that _get_new_autogen_category hands back an unused name with the internal prefix without touching the "
        "database; that extended_with returns a new frozen database satisfying the invariant with the "
        "documented view while leaving its parent's category list, dictionaries and chain maps unchanged; and that "
        "filtered_context never raises, returns a new database satisfying the invariant whose category order is exactly "
        "the kept sub-sequence of the parent's (loop invariant over a counting function K and its inverse, with the "
        "inductive facts about K proved in a lemma unit), whose kept categories define what they defined in the parent for "
        "the kept kinds and nothing for the others, and leaves the parent unchanged. Every contract now states the whole "
        "view (the other categories keep their definitions, the new category defines exactly the given specs). "
        "Induction over build histories = the invariant.",
   ref="DESIGN.md section 5, C14",
   note=NOTE + "; A-DB: dict(...) of a comprehension over specs is a fresh dictionary of unknown content, ChainMap looks "
        "keys up through .maps in order, a specials spec is stored under its own specials_chars; every dictionary of a database stores each spec under the spec's own "
        "name (so that re-keying d.values() gives d's content); not covered: iter_*_specs, "
        "'first among equally long' specials")

CLAIMED['C17'] = dict(
   text="Unbounded proof that a state derived by sub_context() satisfies PS_inv (every cached table equals the value a "
        "fresh state with the same public fields computes): verification conditions are generated from the AST of the "
        "three _finalize_state_* methods with each recompute branch abstracted as an uninterpreted function of exactly "
        "the attributes it reads (transitively through earlier tables); the obligation 'inherited value == freshly "
        "computed value' holds iff the inherit guard mentions every field in that read-set. sub_context/__init__/"
        "set_fields/get_fields/_safe_eq are executed symbolically over abstract field values: fields not recorded as "
        "changed keep the parent's value, the receiver is not written. An AST scan shows tokenizer and parsers read "
        "only public fields and tables covered by PS_inv. The receiver of sub_context may itself be a derived state (the child "
        "records the receiver, not an ancestor, as the state its changed keys are relative to), and a syntactic frame obligation "
        "per table builder shows that the recompute branch assigns only its own tables (no in-place update of a field value "
        "or of a local alias of one: those objects are shared with the state it was derived from); requested values may be None "
        "(a delimiter list given as None means the default list); ParsingStateDeltaChained applies its deltas one after the "
        "other, each to the state its predecessor produced (chains of up to three entries).",
   ref="DESIGN.md section 5, C17",
   note=NOTE + "; the recompute code itself is uninterpreted (a change there affects derived and fresh states alike); "
        "'behaves identically' follows from equal tables + the reader scan, stated not mechanised")

CLAIMED['C04'] = dict(
   text="Unbounded proof over abstract rules (a dictionary rule is an unknown map, a regular expression an unknown "
        "matcher, a callable an unknown function) that each _apply_rule_* implements 'if the rule matches at p.pos append "
        "protect(replacement) and advance by the consumed length, else leave the state untouched', that the rule's own "
        "protection takes precedence, that the five protection schemes and the unknown-character policies equal their "
        "documented definitions, that one iteration of the main loop performs exactly one documented step (ASCII skip / "
        "first matching rule in order / printable ASCII copied / policy) and advances, that __init__ compiles rule i to an "
        "application of rule i, that the partial encoder copies exactly the ONE token the tokenizer reads at that position "
        "(whatever its kind: macro with trailing space, \\begin{name}, brace, comment) and raises nothing, and that the cached "
        "helper encodes with an encoder carrying exactly the requested options. result == ENC(NFC(s)) and the "
        "concatenation homomorphism are the induction over iterations: stated, not mechanised.",
   ref="DESIGN.md section 5, C04",
   note=NOTE + "; unicodedata.normalize is an arbitrary string function; callable/regex rules are assumed to consume >= 1 "
        "character; get_builtin_conversion_rules and the rule tables are not covered here (see C13 when claimed)")

CLAIMED['C13'] = dict(
   text="Second sentence decided: from the C04 step contract every chunk appended under 'replace'/'ignore'/'unihex' is a "
        "copied ASCII character, a protected value of a built-in table, or an ASCII policy literal, and ASCII is closed "
        "under concatenation (lemmas), with table obligations over all 1512 + 2233 rows of the two built-in tables "
        "(every value ASCII; re-read from the sources each run); 'fail' raises exactly in the no-rule/not-pass-through "
        "branch (C04 step relation + _do_unknown_char_fail always raises). First sentence, lexical part: the ten "
        "LaTeX-active ASCII characters are keys of the default table, values are brace-balanced apart from escaped braces, "
        "have no unescaped % # &, balanced $ and no \\begin/\\end, and no brace scheme leaves a dangling control word. "
        "Both tables escape all ten active characters. First sentence, a necessary condition decided row by row ON THE REAL CODE "
        "(backend cpython, complete over the tables): for every table character X, every brace scheme and the inputs X, Xa, aX, "
        "X1 the real encoder's output parses in the real strict parser -- 13 rows of the unicode-xml table (combining accents "
        "mapped to a bare accent macro) fail and are recorded as known findings. NOT decided: that the encodings of arbitrary "
        "strings parse in strict mode (the composition of chunks under the walker database; no contract expresses that).",
   ref="DESIGN.md sections 5 (C13) and 6",
   note=NOTE + "; table rows are program data enumerated completely; HexstrN ('%X' formatting) is ASCII by A-LIB")

_PARSE_NOTE = (NOTE + "; verified against the parser interface contract (PIC, contracts/parsers.py): parse_content, LatexGeneralNodesParser, "
               "LatexDelimitedExpressionParser.parse for groups and delimiter math, the macro / environment / specials call parsers, the "
               "optional one-character marker, the expression parser's single-token step; PIC remains ASSUMED for the parsers without a "
               "unit (LatexArgumentsParser's own span, verbatim and multi-delimiter parsers, multi-character markers, the standard-argument "
               "wrapper, LatexExpressionParser.parse's retry loop apart from its bounded C12 unit); collector services get_final_nodelist / "
               "pos_start are assumed, _update_posposend_from_nodelist (first / last non-None node) is proved; spec.get_node_parser of "
               "user subclasses is outside (A-DYN)")
CLAIMED['C01'] = dict(
   text="Proof of the span contracts that carry the tiling, for all strings, positions and parsing-state switches: tokenizer "
        "contracts of C11 (no gap, token fields partition their slice); collector invariant COV (nodes collected so far are "
        "consecutive, pending characters are exactly the source text between them and the reader) preserved by "
        "process_one_token / flush / finalize / process_tokens on every exit in strict mode, ordered non-overlapping cover in "
        "tolerant mode; chars and comment nodes carry their source slice; LatexGeneralNodesParser.parse returns a list "
        "spanning exactly what was consumed; parse_content hands back a node that starts at the construct's start and ends at "
        "the reader, given the parser interface contract. Top-level tiling and nesting for whole documents follow by "
        "induction over parser invocations: stated, not mechanised.",
   ref="DESIGN.md section 5, C01", note=_PARSE_NOTE)
CLAIMED['C05'] = dict(
   text="Proof of the mechanisms: exception effects (raises-closed per function: only LatexWalkerParseError and the internal "
        "control exceptions between the functions proved to catch them), every subscript/attribute/binding well-defined on "
        "all paths of the functions under contract, every raise site of the parse-error family located (0 <= pos <= len(s)), "
        "_ParsingContext.__exit__ fills in line/column of the error's own position (C20) and propagates in strict mode, "
        "illegal closing tokens are never silently accepted by the collector, a \\begin/\\end macro is no expression, a "
        "required stop condition not met raises, a group / environment body / math run stops only at its own closing token "
        "(stop-token units), the expression parser raises nothing else when the input ends where an expression is expected. "
        "'Always rejected' for every well-formed document plus one fault is the stated (not mechanised) lemma over these "
        "mechanisms. The assumption of an unbounded call stack (A-SEM) is probed on the real code with 50 / 400 nested groups: "
        "the 400-deep input raises RecursionError (known finding). The property is stated for tolerant_parsing=False: the shared "
        "units are explored on their strict paths only.",
   ref="DESIGN.md section 5, C05", note=_PARSE_NOTE)
CLAIMED['C06'] = dict(
   text="Proof of the mechanisms: in tolerant mode __exit__ swallows every LatexWalkerParseError and remembers the error object, "
        "parse_content then returns the error's recovery nodes and resets the reader to the recovery token without moving "
        "backwards; every token (incl. recovery tokens) advances, process_one_token makes progress in both modes and "
        "process_tokens' loop has the variant len(s) - position; the general-nodes parser attaches everything collected before "
        "the error; the tolerant flag is read only at the error-handling entry points (AST scan), so an error-free run executes "
        "the same statements in both modes, and end-of-stream / successful parser results are returned identically in both modes; "
        "the expression parser hands back an (empty) group node when the input ends where an expression is expected. The "
        "assumption of an unbounded call stack (A-SEM) is probed on the real code with 50 / 400 nested groups: the 400-deep "
        "input raises RecursionError (known finding).",
   ref="DESIGN.md section 5, C06", note=_PARSE_NOTE)

_L2T_NOTE = NOTE + ("; children of a node enter through the interface contracts of node_to_text / nodelist_to_text (each verified by "
                    "its own unit), the structural induction over the finite node tree is stated, not mechanised; argument lists of at "
                    "most 3 entries in the renderer units; database rows are read by importing the tree under check (A-TABLE); "
                    "see evidence.assumptions")

CLAIMED['C07'] = dict(
   text="Proof that every function of the rendering layer is total and returns a string: each renderer (chars, comment, group, "
        "macro, environment, specials, math), the dispatch node_to_text, the fold nodelist_to_text (loop contract over a list of "
        "any length), the None-tolerant helpers (_is_bare_macro_node incl. macro nodes without an arguments object, "
        "_groupnodecontents_to_text, node_arg_to_text under its index precondition), apply_simplify_repl for every kind of "
        "replacement (callable with any subset of the optional parameters, plain string, %-substitution: the three exception "
        "classes of a failed substitution are caught), the strict_latex_spaces presets, and EVERY replacement callable of the "
        "default text database, located in the real source by file and line on each run and verified for each argument signature "
        "the walker database declares for the rows that use it plus the no-arguments shape of a macro read as a single token "
        "(index obligations on nodeargs / argnlist, node_arg_to_text's precondition at each call site). Table obligations tie the "
        "two hand-synchronised databases together. latex_to_text = render(parse) with the tolerant-parse contract of C06. The "
        "assumption of an unbounded call stack (A-SEM) is probed on the real code with 50 / 400 nested groups: the 400-deep "
        "input raises RecursionError (known finding).",
   ref="DESIGN.md section 5, C07", note=_L2T_NOTE)

CLAIMED['C12'] = dict(
   text="Proof of the filter mechanisms on the real renderers: comment_node_to_text emits the comment text iff keep_comments "
        "(four-way table with the after-comment policy); math_node_to_text for inline, display and environment math under the four "
        "math modes (remove -> '', verbatim -> the source slice unchanged, with-delimiters -> delimiters kept, text -> stripped / "
        "indented content) with the in-equations policy pushed for the contents and restored afterwards (frame); discarded macros "
        "and environments contribute ''; node_to_text sends every math node to math_node_to_text; fmt_equation_environment is the "
        "math switch and the table obligation shows every math environment of the walker database is rendered by it. "
        "A dedicated unit shows that fmt_equation_environment hands the node to math_node_to_text in EVERY math mode, another that "
        "the matrix renderer hands every body node that is not a separator (comments included) to nodelist_to_text. "
        "LatexExpressionParser.parse: nodes skipped before the end of the input are handed back; the clause that the comments it "
        "skips before a found expression stay in the tree is refuted on the tree as it stands (known finding, comment between a "
        "macro and its argument); so is the clause that a replacement string renders every argument (known finding: a comment "
        "inside an argument the replacement text does not use, e.g. the short title of \\section).",
   ref="DESIGN.md section 5, C12", note=_L2T_NOTE + "; LatexExpressionParser.parse: bounded (at most two nodes skipped earlier)")

CLAIMED['C03'] = dict(
   text="Proof that each renderer equals its documented rule function: chars copied / whitespace-only chars dropped unless strict "
        "between-latex-constructs; the comment post-space table; groups transparent or kept with their delimiters from minlen on; "
        "unknown macro -> '', unknown environment -> body, unknown specials -> the characters; discard; replacement strings used as "
        "they are, callables given exactly the parameters they declare; math inline / display block; the fold law of "
        "nodelist_to_text as a one-step relation proved for an arbitrary iteration of the real loop (s' = s + [post-space of a bare "
        "macro before chars unless strict] + text of the node at the column after the last newline), from which the "
        "compositionality statement follows; the documented preset table of strict_latex_spaces incl. the aliases; placeholders of "
        "every replacement string of the text database fit the arguments the walker database declares.",
   ref="DESIGN.md section 5, C03", note=_L2T_NOTE + "; symbol and accent tables are data and are not checked against Unicode")

CLAIMED['C10'] = dict(
   text="Proof of the hand-over contracts through which the math / text mode travels, on the real code: the event handler's "
        "enter / leave deltas set exactly (in_math_mode, math_mode_delimiter); get_updated_parsing_state_from_delta and the "
        "delta classes hand on parsing_state.sub_context(those attributes) (C17 contract: every other field inherited) and leave "
        "the given state unaltered; LatexMathParserInfo.initialize puts the contents in math mode with the opening delimiter "
        "recorded and takes the closing delimiter from the table's partner of the opening one, the math node keeps the OUTER "
        "state, displaytype follows the token kind, the contents stop exactly at the partner delimiter of the same kind, a "
        "closing delimiter never opens a formula; LatexDelimitedExpressionParser.parse (groups and math, parser objects built by "
        "the library's own constructors) parses the contents once in the contents state, builds the node at the opening token "
        "and hands NO parsing-state change of the contents on to what follows (a formula is a group); LatexArgumentsParser.parse gives argument j the state "
        "its own delta yields, in order; environment bodies get the spec's body delta (EnvironmentSpec(is_math_mode=True) "
        "declares enter-math: real constructor executed); the collector creates its nodes with its current state and parses "
        "children in make_child_parsing_state(...) (clause on process_one_token); the tokenizer tries the expected closing "
        "delimiter before any opening one and otherwise takes the longest delimiter (C11 unit, shared); table obligations: "
        "text-like macros leave, ensuremath enters, the 15 math environments enter math mode and nothing else declares a change.",
   ref="DESIGN.md section 5, C10",
   note=NOTE + "; the statement for every node of every document is the induction over parser invocations on top of these "
        "contracts (stated, not mechanised); which strings are delimiters and their partners are arbitrary unknowns; A-TABLE")

CLAIMED['C02'] = dict(
   text="Proof of the mechanisms the property names, each as a contract on the real function (NOT of the end-to-end statement that "
        "the tree equals the derivation for every document of the grammar, see DESIGN section 6): the argument-letter decision table "
        "of LatexStandardArgumentParser.get_arg_parser_instance for m { o [ s * t<c> r<c1c2> d<c1c2> v v<c1c2> e{chars} "
        "AnyDelimited[Optional] with symbolic delimiter characters (parser class, delimiters, optional, allow_pre_space) and the "
        "parser cache; LatexArgumentsParser.parse: slot j holds the result of parser j, called in order, and the arguments parser "
        "itself only looks ahead (every call that moves the reader is logged; input is consumed by the argument parsers only); "
        "CallableSpec.make_body_parser builds the body parser for the name in the \\begin token (also for the catch-all spec of "
        "undeclared environments); an absent optional "
        "delimited argument returns (None, None) and consumes nothing, allow_pre_space=False being the line-break rule "
        "(LatexDelimitedExpressionParser.parse for groups and math, verified against the parser interface contract); the optional "
        "one-character marker (star, t<c>) is read at most once and gives its whitespace back when absent (loop contract); bracket "
        "delimiters are added to the group delimiters only when absent and children get the OUTER state unless they open with the "
        "same delimiter; group / environment contents stop exactly at the matching closer / the \\end of the same name; the call "
        "parsers build the node from the call token, the arguments object returned by the arguments parser and the body returned "
        "by the body parser, spanning from the call token to the reader; process_one_token's dispatch and spans (C01 unit).",
   ref="DESIGN.md section 5 and 6, C02",
   note=NOTE + "; the composition of these mechanisms over whole documents is not claimed; multi-character markers, embellishment "
        "lists, verbatim and multi-delimiter parsers are not under contract")

CLAIMED['C16'] = dict(
   text="Proof of the wrapper contracts: each legacy walker method (get_latex_nodes with every stop-condition combination and "
        "read_max_nodes, get_latex_expression, get_latex_braced_group for every brace type, get_latex_environment, "
        "get_latex_maybe_optional_arg) is verified to be exactly ONE parse_content call with the equivalent pylatexenc-3 parser "
        "object configured as requested (constructors executed), a reader created at pos and the given / default parsing state "
        "(the stop brace pair appended to the group delimiters iff absent), to compute its (node, pos, len) tuple from the node / "
        "reader position that call returned, and to let every LatexWalkerParseError of that call propagate unchanged -- apart from "
        "the two documented deviations of get_latex_expression; get_latex_nodes' stop closures are probed with an arbitrary token "
        "and node count. Spec shims: every spelling of an argument signature over * [ { (up to length 3; arguments_spec_list, "
        "positional, args_parser string, MacroStandardArgsParser, std_macro in its idioms) yields those argument letters (real "
        "constructors executed); the legacy wrapper asks the legacy parser once at the reader position, leaves the reader at "
        "apos+alen and stores the returned states under the names the spec hooks read; nodeoptarg / nodeargs are the documented "
        "split; the legacy \\verb / verbatim / specials args parser stays inside the string (loop contract) and raises located errors; "
        "MacroStandardArgsParser.parse_args (signatures up to two slots) reads its slots one after the other through the legacy "
        "walker methods, each from where the previous one ended (after a star: just behind it, whatever whitespace preceded it; a "
        "star slot at the end of the input is absent); that a mandatory slot at a closing brace fails in strict mode as the new "
        "parser does is refuted (strict_braces=False, pylatexenc 2 behaviour kept on purpose: known finding).",
   ref="DESIGN.md section 5, C16",
   note=NOTE + "; parse_content enters as an arbitrary outcome; MacroStandardArgsParser.parse_args' own argument loop is not proved "
        "equal to LatexArgumentsParser on all inputs (two-program equivalence, stated; per-slot contract instead); get_token not covered")

CLAIMED['C09'] = dict(
   text="Proof of the frame conditions behind purity, recomputed from the real ASTs on every run: for every method of every class whose "
        "instances outlive a parse (all parser classes incl. the cached standard-argument parsers and the verbatim parsers, the "
        "arguments parsers, the specification classes, LatexArgumentSpec, ParsingState, the parsing-state deltas, the event handler, "
        "the legacy args parsers, LatexContextDb) one `frame` obligation: outside the constructor the method stores into no attribute of "
        "self, mutates no container held there, writes no module-level state and mutates no default-argument object; two declared "
        "exceptions with their own obligations (the parser cache stores a parser built from exactly its key; the memoised inner parser is "
        "a function of constructor-only fields); ParsingState's table builders are called only from its constructor; no parser, "
        "collector, reader or specification calls a mutator of the context database; the database lookups have modifies=[] (C14 units) "
        "and the cache is a function of its key (C02 lemma). Determinism then follows by the stated lemma.",
   ref="DESIGN.md section 5, C09",
   note=NOTE + "; syntactic frame analysis (aliasing of a shared container through a local is not tracked); per-parse objects are "
        "excluded; the determinism lemma itself is stated, not mechanised",
   technique="contract-based deductive verification: frame (modifies) obligations generated from the real ASTs per method, exceptions discharged by "
             "their own obligations; pyvc units for the database lookups and the parser cache")

CLAIMED['C18'] = dict(
   category='exploration',
   text="BOUNDED, not a proof for all lists: the real split_at_chars / split_at_node / filter are executed symbolically on node lists with a "
        "concrete spine of at most 2 (quick) / 3 (thorough) entries -- None, an abstract child node that cannot be inspected, or a chars "
        "node of 1..2 / 1..3 arbitrary characters -- with symbolic consecutive positions, an arbitrary separator of 1..2 characters and "
        "every option enumerated; loops unrolled. Within the bound, for all characters / positions / options: created chars nodes are "
        "slices of input chars nodes with the matching source span; other nodes pass by identity in order (a separator inside a child "
        "cannot split); with keep_empty and no max_split the parts joined by the separator reproduce the text and tile the list; at most "
        "max_split splits; the result without keep_empty is the result with it minus the empty parts (the function is run twice); callable "
        "/ match-object separators split exactly at the reported match; filter returns exactly the accepted nodes in order. Proved "
        "without bound: get_content_as_chars by cases, the argument views (ParsedArgumentsInfo keeps given arguments; get_content_nodelist "
        "decision table). parse_keyval_content is run by the verifier on 14 concrete texts x 4 policies and compared with the two splits.",
   ref="DESIGN.md section 5, C18",
   note=NOTE + "; bound: entries <= 2/3 (4 for split_at_node), chars per node <= 2/3, separator <= 2 chars, max_split in {None,0,1,2}; an "
        "inductive invariant for the pending-nodes state machine was not attempted",
   technique="contract-based verification of the real functions with contracts as above; the whole-function clauses are discharged by bounded "
             "symbolic execution (pyvc, loops unrolled) -- a bounded stand-in, labelled as such and not counted as proved")

NA = {
 'C08': "No contract within reach can express or decide it: the round trip is the functional correctness of the composition "
        "tokenizer . parser . default walker database . renderer . default text database on the image of the encoder, for ~1230 "
        "table entries and every neighbour pair; it is not a property of one call or one data structure, and a contract that "
        "could carry it would be a full denotational semantics of parser and renderer. What this technique can say about the "
        "two tables (each bare-macro encoder value has a text-database row rendering the original character) is a data "
        "cross-check, not the property; running the round trip over the alphabet with run-time-checked contracts would be "
        "testing under another name. See DESIGN.md section 6.",
}
DEFAULT_NA = "check not built yet (work in progress; see DESIGN.md section 5 for the planned contracts)"

def main():
    checks = []
    for p in PROPS:
        if p in CLAIMED:
            c = CLAIMED[p]
            checks.append({
                "property_id": p,
                "quick_cmd": "python3-vt -m pyvc.check %s --tier quick" % p,
                "thorough_cmd": "python3-vt -m pyvc.check %s --tier thorough" % p,
                "evidence_file": "evidence/%s.json" % p,
                "replay_cmd_template": "python3-vt -m pyvc.check %s --replay {path}" % p,
                "engine": "pyvc",
                "level_claimed": {"category": c.get('category', 'proof'), "text": c['text'], "design_ref": c['ref']},
                "level_note": c.get('note', NOTE),
                "technique": c.get('technique', TECH),
            })
    m = {"version": 1,
         "setup_cmd": "python3-vt -m pyvc.selftest",
         "hooks": {"guard": "PYLATEXENC_VERIF",
                   "enable": "no instrumentation of /repo is needed: the verifier re-reads the source ASTs of /repo on every run",
                   "baseline_off_cmd": "cd /repo && /venv/bin/python -m pytest -ra -q -p no:cacheprovider --timeout=900 --continue-on-collection-errors",
                   "source_commits": [], "add_only": True},
         "engines": [{"name": "pyvc", "path": "pyvc/", "serves_properties": sorted(CLAIMED),
                      "kind_free_text": "verification-condition generator + symbolic executor over the real Python ASTs of /repo, sidecar contracts in contracts/, z3 5.1 (python API) with cvc5 for z3's unknowns"}],
         "checks": checks,
         "notes": "Every check re-reads /repo's working tree. Exit 0 all obligations proved; 1 refuted obligation (VIOLATION line, replay against the real code); 2 undecided/coverage regression; 3 checker crash/vacuous.",
         "not_applicable": [{"property_id": p, "reason": NA.get(p, DEFAULT_NA)} for p in PROPS if p not in CLAIMED]}
    json.dump(m, open(os.path.join(V, 'MANIFEST.json'), 'w'), indent=1)

if __name__ == '__main__':
    main()
