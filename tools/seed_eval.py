"""Confirm a seeded change in its scratch worktree and run the registered check against it on /repo.
usage: seed_eval.py PID N WORKTREE "needs text"
Reads WORKTREE/seed_<PID>_<N>.diff and demo_<PID>_<N>.py; writes /verif/seeded/<PID>_<N>/ (patch.diff, demo.py, meta.json)."""
import json, os, re, shutil, subprocess, sys
pid, n, wt, needs = sys.argv[1:5]
store_n = sys.argv[5] if len(sys.argv) > 5 else n      # round-2 seeds are stored under another number
sid = '%s_%s' % (pid, n)
diff = os.path.join(wt, 'seed_%s.diff' % sid)
demo = os.path.join(wt, 'demo_%s.py' % sid)
out = os.path.join('/verif/seeded', '%s_%s' % (pid, store_n))
os.makedirs(out, exist_ok=True)
def sh(cmd, cwd=None, env=None, timeout=1800):
    e = dict(os.environ); e.update(env or {})
    p = subprocess.run(cmd, shell=True, cwd=cwd, env=e, capture_output=True, text=True, timeout=timeout)
    return p.returncode, (p.stdout + p.stderr)
env = {'PYTHONPATH': wt}
sh('git checkout -- .', cwd=wt)
# the worktree may be behind /repo's fix commits: bring it to /repo HEAD first
sh('git checkout -q --detach $(git -C /repo rev-parse HEAD)', cwd=wt)
rc0, o0 = sh('timeout 120 /venv/bin/python %s' % demo, cwd=wt, env=env)
rca, oa = sh('git apply %s' % diff, cwd=wt)
rct, ot = sh('/venv/bin/python -m pytest -q -p no:cacheprovider --timeout=900 2>&1 | tail -2', cwd=wt, env=env)
rc1, o1 = sh('timeout 120 /venv/bin/python %s' % demo, cwd=wt, env=env)
sh('git checkout -- .', cwd=wt)
passed = re.search(r'(\d+) passed', ot)
failed = re.search(r'(\d+) failed', ot)
confirmed = (rc0 == 0 and rca == 0 and rc1 == 1 and passed and int(passed.group(1)) >= 286 and not failed)
shutil.copy(diff, os.path.join(out, 'patch.diff'))
shutil.copy(demo, os.path.join(out, 'demo.py'))
meta = {'property': pid, 'needs': needs, 'confirmed': bool(confirmed),
        'ran': {'demo_clean_exit': rc0, 'patch_applies': rca == 0, 'tests': ot.strip().splitlines()[-1:] ,
                'demo_patched_exit': rc1, 'demo_patched_output': o1.strip()[-600:]}}
check = None
if confirmed:
    import fcntl
    _lock = open('/tmp/seed_eval.lock', 'w'); fcntl.flock(_lock, fcntl.LOCK_EX)   # /repo is patched: one evaluation at a time
    rcA, oA = sh('git -C /repo apply %s' % os.path.join(out, 'patch.diff'))
    try:
        if rcA == 0:
            rcC, oC = sh('python3-vt -m pyvc.check %s --tier quick' % pid, cwd='/verif', env={'PYVC_EVIDENCE_SCRATCH': '1'})
            check = {'exit': rcC, 'output': oC.strip()[-1500:]}
    finally:
        sh('git -C /repo checkout -- .')
    meta['check_on_repo_with_patch'] = check
    meta['detected'] = bool(check and check['exit'] == 1 and 'VIOLATION' in check['output'])
json.dump(meta, open(os.path.join(out, 'meta.json'), 'w'), indent=1)
print(sid, 'confirmed' if confirmed else 'NOT CONFIRMED', '| detected:' , meta.get('detected'))
if check: print(check['output'][-700:])
if not confirmed: print(o0[-300:], oa[-300:], ot[-300:], o1[-300:])
