"""Re-run every kept seeded change against the current /repo and the current checks.

For each /verif/seeded/<id>/: the patch is applied to /repo (git apply), the demo is run on the clean and on the patched
tree, the property's quick check is run on the patched tree (evidence goes to evidence_scratch/), and the patch is
undone again (git checkout -- .).  Writes /verif/seeded/RECHECK.json.  Do not run other checks while this runs.
usage: recheck_seeds.py [ID ...]"""
import glob, json, os, re, subprocess, sys

V = '/verif'
only = set(sys.argv[1:])


def sh(cmd, cwd=None, env=None, timeout=3600):
    e = dict(os.environ)
    e.update(env or {})
    p = subprocess.run(cmd, shell=True, cwd=cwd, env=e, capture_output=True, text=True, timeout=timeout)
    return p.returncode, p.stdout + p.stderr


assert sh('git -C /repo status --porcelain')[1].strip() == '', '/repo has uncommitted changes'
out = json.load(open(V + '/seeded/RECHECK.json')) if only and os.path.exists(V + '/seeded/RECHECK.json') else {}
for d in sorted(glob.glob(V + '/seeded/*/')):
    sid = os.path.basename(d[:-1])
    if only and sid not in only:
        continue
    pid = sid.split('_')[0]
    patch, demo = d + 'patch.diff', d + 'demo.py'
    rec = {}
    rc0, o0 = sh('timeout 300 /venv/bin/python %s' % demo, cwd='/repo', env={'PYTHONPATH': '/repo'})
    rec['demo_clean_exit'] = rc0
    rca, oa = sh('git -C /repo apply %s' % patch)
    rec['applies'] = (rca == 0)
    if rca == 0:
        try:
            rc1, o1 = sh('timeout 300 /venv/bin/python %s' % demo, cwd='/repo', env={'PYTHONPATH': '/repo'})
            rec['demo_patched_exit'] = rc1
            rcC, oC = sh('python3-vt -m pyvc.check %s --tier quick' % pid, cwd=V, env={'PYVC_EVIDENCE_SCRATCH': '1'})
            rec['check_exit'] = rcC
            rec['refuted'] = re.findall(r'refuted: (.*)', oC)[:4]
            rec['violation_lines'] = [l for l in oC.splitlines() if l.startswith('VIOLATION')][:4]
            rec['reproduced_natively'] = any('no-failing-input-found' not in l for l in rec['violation_lines'])
            rec['detected'] = (rcC == 1 and bool(rec['violation_lines']))
        finally:
            sh('git -C /repo checkout -- .')
    else:
        rec['apply_error'] = oa.strip()[-300:]
    out[sid] = rec
    print(sid, rec.get('applies'), 'demo', rec.get('demo_clean_exit'), '->', rec.get('demo_patched_exit'), 'detected', rec.get('detected'),
          'replayed', rec.get('reproduced_natively'), flush=True)
    json.dump(out, open(V + '/seeded/RECHECK.json', 'w'), indent=1)
assert sh('git -C /repo status --porcelain')[1].strip() == ''
