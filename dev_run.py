"""developer helper: run the units of a property and print obligations"""
import sys, json, time
sys.path.insert(0, '/verif')
from pyvc.contracts import Registry
from pyvc.smt import Config
from pyvc.runner import run_units
import contracts

pid = sys.argv[1]
only = sys.argv[2:] 
reg = Registry()
units = contracts.build(reg)[pid]
if only:
    units = {k: v for k, v in units.items() if any(o in k for o in only)}
cfg = Config('quick')
t0 = time.time()
res = run_units(reg, units, cfg, jobs=None)
for r in res:
    print('==', r['unit'], 'paths', r['paths'], 'wall', r['wall_s'], 'solver', r['solver_seconds'])
    if r['crash']:
        print(r['crash'])
    for i in r['incomplete']:
        print('   INCOMPLETE', i)
    for o in r['obligations']:
        flag = {'proved': ' ok ', 'refuted': 'FAIL', 'undecided': ' ?? ', 'unchecked': ' -- '}[o['status']]
        print('  ', flag, o['name'], '(%s, %.2fs, %d paths)' % (o['backend'], o['seconds'], o['paths']), o.get('detail', ''))
        if o['status'] == 'refuted':
            m = o.get('model') or {}
            short = {k: (v.get('text') if isinstance(v, dict) else v) for k, v in m.items()
                     if not (isinstance(v, bool) and not v) and k != '_decisions' and not k.startswith('parsing_state._math_all')}
            print('        model', json.dumps(short)[:900])
    print('   covers', r['covers'])
print('total %.1fs' % (time.time() - t0))
